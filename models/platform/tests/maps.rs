//! Differential test of the fixed-capacity ordered-map model against std::collections (native).
use anydb_verif_platform::collections::{BTreeMap as M, BTreeSet as S, CAP};
use std::collections::{BTreeMap, BTreeSet};

struct Lcg(u64);
impl Lcg {
    fn next(&mut self) -> u64 {
        self.0 = self.0.wrapping_mul(6364136223846793005).wrapping_add(1442695040888963407);
        self.0 >> 33
    }
}

#[test]
fn map_agrees_with_std_on_random_scripts() {
    for seed in 0..2000u64 {
        let mut g = Lcg(seed * 7919 + 1);
        let mut m: M<usize, u64> = M::new();
        let mut r: BTreeMap<usize, u64> = BTreeMap::new();
        for _ in 0..40 {
            let k = (g.next() % 7) as usize;
            let v = g.next();
            match g.next() % 9 {
                0 | 1 => {
                    if r.len() < CAP || r.contains_key(&k) {
                        assert_eq!(m.insert(k, v), r.insert(k, v));
                    }
                }
                2 => assert_eq!(m.remove(&k), r.remove(&k)),
                3 => assert_eq!(m.get(&k), r.get(&k)),
                4 => {
                    if let Some(x) = m.get_mut(&k) {
                        *x = v;
                    }
                    if let Some(x) = r.get_mut(&k) {
                        *x = v;
                    }
                }
                5 => {
                    assert_eq!(m.range(k..).next(), r.range(k..).next());
                    assert_eq!(m.range(..k).next_back(), r.range(..k).next_back());
                    assert_eq!(m.last_key_value(), r.last_key_value());
                    assert_eq!(m.first_key_value(), r.first_key_value());
                }
                6 => {
                    let a = m.split_off(&k);
                    let b = r.split_off(&k);
                    assert_eq!(a.iter().collect::<Vec<_>>(), b.iter().collect::<Vec<_>>());
                }
                7 => {
                    if r.len() < CAP || r.contains_key(&k) {
                        *m.entry(k).or_default() += 1;
                        *r.entry(k).or_default() += 1;
                    }
                }
                _ => assert_eq!(m.pop_first(), r.pop_first()),
            }
            assert_eq!(m.len(), r.len());
            assert_eq!(m.iter().collect::<Vec<_>>(), r.iter().collect::<Vec<_>>());
            assert_eq!(m.keys().rev().collect::<Vec<_>>(), r.keys().rev().collect::<Vec<_>>());
        }
        let taken: Vec<_> = m.into_iter().collect();
        let want: Vec<_> = r.into_iter().collect();
        assert_eq!(taken, want);
    }
}

#[test]
fn set_agrees_with_std() {
    for seed in 0..1000u64 {
        let mut g = Lcg(seed * 104729 + 3);
        let mut m: S<usize> = S::new();
        let mut r: BTreeSet<usize> = BTreeSet::new();
        for _ in 0..30 {
            let k = (g.next() % 6) as usize;
            match g.next() % 6 {
                0 | 1 => {
                    if r.len() < CAP || r.contains(&k) {
                        assert_eq!(m.insert(k), r.insert(k));
                    }
                }
                2 => assert_eq!(m.remove(&k), r.remove(&k)),
                3 => assert_eq!(m.contains(&k), r.contains(&k)),
                4 => {
                    let a = m.split_off(&k);
                    let b = r.split_off(&k);
                    assert_eq!(a.iter().collect::<Vec<_>>(), b.iter().collect::<Vec<_>>());
                }
                _ => {
                    assert_eq!(m.range(k..).next(), r.range(k..).next());
                    assert_eq!(m.first(), r.first());
                    assert_eq!(m.last(), r.last());
                }
            }
            assert_eq!(m.iter().collect::<Vec<_>>(), r.iter().collect::<Vec<_>>());
        }
    }
}

#[test]
fn string_keys_total_order_is_consistent() {
    let mut m: M<String, usize> = M::new();
    for (i, k) in ["b", "a", "v/usize", "zz"].iter().enumerate() {
        m.insert(k.to_string(), i);
    }
    for (i, k) in ["b", "a", "v/usize", "zz"].iter().enumerate() {
        assert_eq!(m.get(*k), Some(&i));
    }
    assert_eq!(m.remove("a"), Some(1));
    assert!(!m.contains_key("a") && m.contains_key("b") && m.len() == 3);
}
