//! Model of `memmap2::{MmapMut, MmapOptions}`.
//! Ghost mode (file has no backing buffer): the map has a length but no bytes; contents are
//! tracked by the harness as provenance over the ghost `Write`/`Copy` events.
//! Contract mode: the map aliases the file's tiny backing buffer.

use std::io;
use std::ops::{Deref, DerefMut};

use crate::fs::{self, File};
use crate::ghost::{self, K};

#[derive(Debug)]
pub struct MmapMut {
    pub ptr: *mut u8,
    pub len: usize,
    pub file: usize,
}
unsafe impl Send for MmapMut {}
unsafe impl Sync for MmapMut {}

impl MmapMut {
    /// Model-only constructor.
    pub fn verif_new(file: usize, len: usize) -> Self {
        let f = &fs::state().files[file];
        Self { ptr: f.buf, len, file }
    }
    #[allow(clippy::len_without_is_empty)]
    #[inline]
    pub fn len(&self) -> usize {
        self.len
    }
    #[inline]
    pub fn as_ptr(&self) -> *const u8 {
        self.ptr
    }
    #[inline]
    pub fn as_mut_ptr(&mut self) -> *mut u8 {
        self.ptr
    }
    pub fn flush(&self) -> io::Result<()> {
        if fs::state().fail_flush {
            return Err(fs::err());
        }
        ghost::log(K::FlushAsync, self.file, 0, self.len);
        ghost::log(K::Sync, self.file, 0, 0);
        Ok(())
    }
    pub fn flush_async(&self) -> io::Result<()> {
        if fs::state().fail_flush {
            return Err(fs::err());
        }
        ghost::log(K::FlushAsync, self.file, 0, self.len);
        Ok(())
    }
    pub fn flush_async_range(&self, off: usize, len: usize) -> io::Result<()> {
        if fs::state().fail_flush {
            return Err(fs::err());
        }
        ghost::log(K::FlushAsync, self.file, off, len);
        Ok(())
    }
}

impl Deref for MmapMut {
    type Target = [u8];
    #[inline]
    fn deref(&self) -> &[u8] {
        let p = if self.ptr.is_null() { core::ptr::NonNull::<u8>::dangling().as_ptr() } else { self.ptr };
        unsafe { core::slice::from_raw_parts(p, self.len) }
    }
}
impl DerefMut for MmapMut {
    #[inline]
    fn deref_mut(&mut self) -> &mut [u8] {
        let p = if self.ptr.is_null() { core::ptr::NonNull::<u8>::dangling().as_ptr() } else { self.ptr };
        unsafe { core::slice::from_raw_parts_mut(p, self.len) }
    }
}
impl AsRef<[u8]> for MmapMut {
    fn as_ref(&self) -> &[u8] {
        self
    }
}

#[derive(Default)]
pub struct MmapOptions;
impl MmapOptions {
    pub fn new() -> Self {
        MmapOptions
    }
    /// # Safety
    /// as memmap2
    pub unsafe fn map_mut(&self, file: &File) -> io::Result<MmapMut> {
        if fs::state().fail_mmap {
            return Err(fs::err());
        }
        let f = &fs::state().files[file.id];
        Ok(MmapMut { ptr: f.buf, len: f.len, file: file.id })
    }
}

// ------------------------------------------------------------------------------------------
// hooks called from rawdb under cfg(kani)
// ------------------------------------------------------------------------------------------

/// Largest write that is really copied in contract mode (bytes).
pub const COPY_BOUND: usize = 48;

/// `write_to_mmap` hook. Ghost mode (no backing bytes): the write becomes a ghost `Write` event
/// (for the regions file the decoded slot fields are attached).  Contract mode: bounded
/// element-wise copy + event.  Always handles the write (returns true).
pub fn ghost_write(mmap: &MmapMut, offset: usize, data: &[u8]) -> bool {
    let n = data.len();
    if mmap.file == crate::fs::REGIONS && n >= 32 {
        // metadata slot: remember what was written (start, len, reserved, id_len)
        let rd = |o: usize| -> u64 {
            let b: [u8; 8] = [data[o], data[o + 1], data[o + 2], data[o + 3], data[o + 4], data[o + 5], data[o + 6], data[o + 7]];
            u64::from_le_bytes(b)
        };
        ghost::log_x(K::Write, mmap.file, offset, n, [rd(0), rd(8), rd(16), rd(24) << 8 | data[32] as u64]);
    } else {
        ghost::log(K::Write, mmap.file, offset, n);
    }
    if !mmap.ptr.is_null() {
        assert!(n <= COPY_BOUND, "VERIF: bound exceeded: contract-mode write size");
        crate::unroll48!(i, {
            if i < n {
                unsafe { *mmap.ptr.add(offset + i) = data[i] };
            }
        });
    }
    true
}

/// `Database::copy` hook.
pub fn ghost_copy(mmap: &MmapMut, src: usize, dst: usize, len: usize) -> bool {
    assert!(src + len <= mmap.len && dst + len <= mmap.len, "copy outside the map");
    ghost::log(K::Copy, src, dst, len);
    if !mmap.ptr.is_null() {
        assert!(len <= COPY_BOUND, "VERIF: bound exceeded: contract-mode copy size");
        crate::unroll48!(i, {
            if i < len {
                unsafe { *mmap.ptr.add(dst + i) = *mmap.ptr.add(src + i) };
            }
        });
    }
    true
}

/// `RegionMetadata::write_if_dirty` hook: the whole-slot write as one ghost event with the decoded
/// fields (start, len, reserved, id_len<<8|first id byte).  Materialising the 4096-byte encoding
/// with symbolic fields costs ~7 M SAT variables per operation harness (array constraints); the
/// byte-level codec is decided separately (C17 round-trip harnesses).
pub fn ghost_slot(mmap: &MmapMut, index: usize, f: [u64; 3], id: &[u8]) -> bool {
    let off = index * 4096;
    assert!(off + 4096 <= mmap.len, "slot write outside the regions map");
    let id0 = if id.is_empty() { 0 } else { id[0] };
    ghost::log_x(K::Write, mmap.file, off, 4096, [f[0], f[1], f[2], (id.len() as u64) << 8 | id0 as u64]);
    true
}
