//! Model of `memmap2::{MmapMut, MmapOptions}`.
//! Ghost mode (file has no backing buffer): the map has a length but no bytes; contents are
//! tracked by the harness as provenance over the ghost `Write`/`Copy` events.
//! Contract mode: the map aliases the file's tiny backing buffer.

use std::io;
use std::ops::{Deref, DerefMut};

use crate::fs::{self, File};
use crate::ghost::{self, K};

#[derive(Debug)]
pub struct MmapMut {
    pub ptr: *mut u8,
    pub len: usize,
    pub file: usize,
}
unsafe impl Send for MmapMut {}
unsafe impl Sync for MmapMut {}

impl MmapMut {
    /// Model-only constructor.
    pub fn verif_new(file: usize, len: usize) -> Self {
        let f = &fs::state().files[file];
        Self { ptr: f.buf, len, file }
    }
    #[allow(clippy::len_without_is_empty)]
    #[inline]
    pub fn len(&self) -> usize {
        self.len
    }
    #[inline]
    pub fn as_ptr(&self) -> *const u8 {
        self.ptr
    }
    #[inline]
    pub fn as_mut_ptr(&mut self) -> *mut u8 {
        self.ptr
    }
    pub fn flush(&self) -> io::Result<()> {
        if fs::state().fail_flush {
            return Err(fs::err());
        }
        ghost::log(K::FlushAsync, self.file, 0, self.len);
        ghost::log(K::Sync, self.file, 0, 0);
        Ok(())
    }
    pub fn flush_async(&self) -> io::Result<()> {
        if fs::state().fail_flush {
            return Err(fs::err());
        }
        ghost::log(K::FlushAsync, self.file, 0, self.len);
        Ok(())
    }
    pub fn flush_async_range(&self, off: usize, len: usize) -> io::Result<()> {
        if fs::state().fail_flush {
            return Err(fs::err());
        }
        ghost::log(K::FlushAsync, self.file, off, len);
        Ok(())
    }
}

impl Deref for MmapMut {
    type Target = [u8];
    #[inline]
    fn deref(&self) -> &[u8] {
        let p = if self.ptr.is_null() { core::ptr::NonNull::<u8>::dangling().as_ptr() } else { self.ptr };
        unsafe { core::slice::from_raw_parts(p, self.len) }
    }
}
impl DerefMut for MmapMut {
    #[inline]
    fn deref_mut(&mut self) -> &mut [u8] {
        let p = if self.ptr.is_null() { core::ptr::NonNull::<u8>::dangling().as_ptr() } else { self.ptr };
        unsafe { core::slice::from_raw_parts_mut(p, self.len) }
    }
}
impl AsRef<[u8]> for MmapMut {
    fn as_ref(&self) -> &[u8] {
        self
    }
}

#[derive(Default)]
pub struct MmapOptions;
impl MmapOptions {
    pub fn new() -> Self {
        MmapOptions
    }
    /// # Safety
    /// as memmap2
    pub unsafe fn map_mut(&self, file: &File) -> io::Result<MmapMut> {
        if fs::state().fail_mmap {
            return Err(fs::err());
        }
        let f = &fs::state().files[file.id];
        Ok(MmapMut { ptr: f.buf, len: f.len, file: file.id })
    }
}
