//! `std::thread` model: `spawn` runs the closure synchronously (avoids Kani's ICE on
//! `JoinHandle` drop glue, DESIGN P9); background tasks are outside every claim.
//! `join` returns a unit-like error type instead of `Box<dyn Any + Send>` (whose recursive drop
//! glue CBMC unwinds to the bound).

#[derive(Debug)]
pub struct JoinError;

pub struct JoinHandle<T> {
    res: Option<T>,
}
impl<T> JoinHandle<T> {
    pub fn join(mut self) -> Result<T, JoinError> {
        match self.res.take() {
            Some(v) => Ok(v),
            None => Err(JoinError),
        }
    }
}
pub fn spawn<F, T>(f: F) -> JoinHandle<T>
where
    F: FnOnce() -> T,
{
    JoinHandle { res: Some(f()) }
}
