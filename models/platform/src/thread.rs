//! `std::thread` model: `spawn` runs the closure synchronously (avoids Kani's ICE on
//! `JoinHandle` drop glue, DESIGN P9); background tasks are outside every claim.
use std::any::Any;

pub struct JoinHandle<T> {
    res: Option<T>,
}
impl<T> JoinHandle<T> {
    pub fn join(mut self) -> Result<T, Box<dyn Any + Send + 'static>> {
        Ok(self.res.take().unwrap())
    }
}
pub fn spawn<F, T>(f: F) -> JoinHandle<T>
where
    F: FnOnce() -> T,
{
    JoinHandle { res: Some(f()) }
}
