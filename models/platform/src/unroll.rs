//! Loop-free iteration over the (small, constant) model tables: model-side loops would force a
//! large global unwind bound, and CBMC then unwinds every *symbolic-length* loop of the real code
//! (e.g. `for x in vec_from_collect`) that far.
#[macro_export]
macro_rules! unroll20 {
    ($i:ident, $body:block) => {
        { let $i: usize = 0; $body }
        { let $i: usize = 1; $body }
        { let $i: usize = 2; $body }
        { let $i: usize = 3; $body }
        { let $i: usize = 4; $body }
        { let $i: usize = 5; $body }
        { let $i: usize = 6; $body }
        { let $i: usize = 7; $body }
        { let $i: usize = 8; $body }
        { let $i: usize = 9; $body }
        { let $i: usize = 10; $body }
        { let $i: usize = 11; $body }
        { let $i: usize = 12; $body }
        { let $i: usize = 13; $body }
        { let $i: usize = 14; $body }
        { let $i: usize = 15; $body }
        { let $i: usize = 16; $body }
        { let $i: usize = 17; $body }
        { let $i: usize = 18; $body }
        { let $i: usize = 19; $body }
    };
}
#[macro_export]
macro_rules! unroll48 {
    ($i:ident, $body:block) => {
        { let $i: usize = 0; $body }
        { let $i: usize = 1; $body }
        { let $i: usize = 2; $body }
        { let $i: usize = 3; $body }
        { let $i: usize = 4; $body }
        { let $i: usize = 5; $body }
        { let $i: usize = 6; $body }
        { let $i: usize = 7; $body }
        { let $i: usize = 8; $body }
        { let $i: usize = 9; $body }
        { let $i: usize = 10; $body }
        { let $i: usize = 11; $body }
        { let $i: usize = 12; $body }
        { let $i: usize = 13; $body }
        { let $i: usize = 14; $body }
        { let $i: usize = 15; $body }
        { let $i: usize = 16; $body }
        { let $i: usize = 17; $body }
        { let $i: usize = 18; $body }
        { let $i: usize = 19; $body }
        { let $i: usize = 20; $body }
        { let $i: usize = 21; $body }
        { let $i: usize = 22; $body }
        { let $i: usize = 23; $body }
        { let $i: usize = 24; $body }
        { let $i: usize = 25; $body }
        { let $i: usize = 26; $body }
        { let $i: usize = 27; $body }
        { let $i: usize = 28; $body }
        { let $i: usize = 29; $body }
        { let $i: usize = 30; $body }
        { let $i: usize = 31; $body }
        { let $i: usize = 32; $body }
        { let $i: usize = 33; $body }
        { let $i: usize = 34; $body }
        { let $i: usize = 35; $body }
        { let $i: usize = 36; $body }
        { let $i: usize = 37; $body }
        { let $i: usize = 38; $body }
        { let $i: usize = 39; $body }
        { let $i: usize = 40; $body }
        { let $i: usize = 41; $body }
        { let $i: usize = 42; $body }
        { let $i: usize = 43; $body }
        { let $i: usize = 44; $body }
        { let $i: usize = 45; $body }
        { let $i: usize = 46; $body }
        { let $i: usize = 47; $body }
    };
}
#[macro_export]
macro_rules! unroll8 {
    ($i:ident, $body:block) => {
        { let $i: usize = 0; $body }
        { let $i: usize = 1; $body }
        { let $i: usize = 2; $body }
        { let $i: usize = 3; $body }
        { let $i: usize = 4; $body }
        { let $i: usize = 5; $body }
        { let $i: usize = 6; $body }
        { let $i: usize = 7; $body }
    };
}
