//! `std::time::Instant` model (rawdb only measures elapsed time for log messages).
use core::time::Duration;
#[derive(Clone, Copy, Debug)]
pub struct Instant;
impl Instant {
    pub fn now() -> Self {
        Instant
    }
    pub fn elapsed(&self) -> Duration {
        Duration::ZERO
    }
}
