//! Platform model for the Kani build of rawdb/vecdb (see /verif/DESIGN.md §3.3).
//! Everything here is sequential and bounded; every bound overflow is an assertion failure.
#![allow(clippy::all)]

#[macro_use]
pub mod unroll;
pub mod collections;
pub mod fs;
pub mod ghost;
pub mod libc;
pub mod mmap;
pub mod pause;
pub mod sync;
pub mod thread;
pub mod time;

/// `kani::assume` under Kani; natively an "infeasible" panic (concrete playback never reaches it
/// with values that came from a solver model).
#[inline(always)]
pub fn assume(c: bool) {
    #[cfg(kani)]
    kani::assume(c);
    #[cfg(not(kani))]
    if !c {
        panic!("VERIF-INFEASIBLE: assumption violated in native run");
    }
}

/// Nondeterministic boolean (fault injection in the models).
#[inline(always)]
pub fn any_bool() -> bool {
    #[cfg(kani)]
    {
        kani::any()
    }
    #[cfg(not(kani))]
    {
        false
    }
}
