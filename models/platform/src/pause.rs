//! Pause points: the first thread's real code calls `pause(id)`; the harness installs a plan
//! "(at, hook)" and the hook (the other thread's real step) runs there in interference mode.

pub struct Plan {
    pub at: usize,
    pub hook: Option<fn()>,
    pub fired: bool,
}
pub static mut PLAN: Plan = Plan { at: usize::MAX, hook: None, fired: false };

#[inline]
fn plan() -> &'static mut Plan {
    #[allow(static_mut_refs)]
    unsafe {
        &mut *core::ptr::addr_of_mut!(PLAN)
    }
}

pub fn install(at: usize, hook: fn()) {
    let p = plan();
    p.at = at;
    p.hook = Some(hook);
    p.fired = false;
}
pub fn fired() -> bool {
    plan().fired
}

#[inline]
pub fn pause(id: usize) {
    let p = plan();
    if p.at == id && !p.fired {
        if let Some(h) = p.hook {
            p.fired = true;
            let old = crate::sync::set_interference(true);
            h();
            crate::sync::set_interference(old);
        }
    }
}
