//! Ghost event log: what the real code did to the outside world, as a bounded array of events.
//! Overflow is an assertion failure (bound exceeded => reported, never assumed away).

pub const NEV: usize = 20;

#[derive(Clone, Copy, PartialEq, Eq, Debug)]
#[repr(u8)]
pub enum K {
    None = 0,
    /// bytes [b, b+c) of map/file `a` are overwritten with caller data
    Write,
    /// bytes [a, a+c) copied to [b, b+c) inside the data map
    Copy,
    /// file `a` set to length `b`
    SetLen,
    /// async flush of map of file `a`, range [b, b+c)
    FlushAsync,
    /// fdatasync / fsync of file `a` (b = 1 for sync_all)
    Sync,
    /// hole punched in file `a`: [b, b+c), KEEP_SIZE asserted at the libc model
    Punch,
    /// try_lock on file `a`; b = 1 granted
    TryLock,
    /// bytes [b, b+c) of map/file `a` were read
    Access,
    /// lock `a` requested (b = 1 exclusive)
    LockReq,
    /// lock `a` released
    LockRel,
    /// file `a` opened (b: 1 = truncate requested)
    Open,
    /// pause point `a` passed
    Pause,
}

pub struct Log {
    pub k: [K; NEV],
    pub a: [usize; NEV],
    pub b: [usize; NEV],
    pub c: [usize; NEV],
    /// payload (metadata slot writes: start, len, reserved, id_len<<8|first id byte)
    pub x: [[u64; 4]; NEV],
    pub n: usize,
    pub tap_locks: bool,
    pub tap_access: bool,
}

pub static mut LOG: Log = Log {
    k: [K::None; NEV],
    a: [0; NEV],
    b: [0; NEV],
    c: [0; NEV],
    x: [[0; 4]; NEV],
    n: 0,
    tap_locks: false,
    tap_access: false,
};

#[inline]
pub fn get() -> &'static mut Log {
    #[allow(static_mut_refs)]
    unsafe {
        &mut *core::ptr::addr_of_mut!(LOG)
    }
}

#[inline]
pub fn log(k: K, a: usize, b: usize, c: usize) {
    let l = get();
    let n = l.n;
    assert!(n < NEV, "VERIF: bound exceeded: ghost event log full");
    l.k[n] = k;
    l.a[n] = a;
    l.b[n] = b;
    l.c[n] = c;
    l.n = n + 1;
}

#[inline]
pub fn log_x(k: K, a: usize, b: usize, c: usize, x: [u64; 4]) {
    let n = get().n;
    log(k, a, b, c);
    get().x[n] = x;
}

pub fn clear() {
    get().n = 0;
    tap().n = 0;
}
pub fn len() -> usize {
    get().n
}
pub fn enable_lock_tap(on: bool) {
    get().tap_locks = on;
}
pub fn enable_access_tap(on: bool) {
    get().tap_access = on;
}

/// Lock tap: its own (longer) log, so that the event log stays short.
pub const NTAP: usize = 48;
pub struct Tap {
    /// lock id; bit 8 = release, bit 9 = exclusive
    pub e: [u16; NTAP],
    pub n: usize,
}
pub static mut TAP: Tap = Tap { e: [0; NTAP], n: 0 };
#[inline]
pub fn tap() -> &'static mut Tap {
    #[allow(static_mut_refs)]
    unsafe {
        &mut *core::ptr::addr_of_mut!(TAP)
    }
}
#[inline]
fn tap_push(v: u16) {
    let t = tap();
    assert!(t.n < NTAP, "VERIF: bound exceeded: lock tap full");
    t.e[t.n] = v;
    t.n += 1;
}
#[inline]
pub fn tap_request(id: usize, excl: bool) {
    if get().tap_locks {
        tap_push(id as u16 | if excl { 512 } else { 0 });
    }
}
#[inline]
pub fn tap_release(id: usize, excl: bool) {
    if get().tap_locks {
        tap_push(id as u16 | 256 | if excl { 512 } else { 0 });
    }
}
#[inline]
pub fn access(map: usize, off: usize, len: usize) {
    if get().tap_access {
        log(K::Access, map, off, len);
    }
}

/// Number of events of kind `k` in the log (loop-free).
pub fn count(k: K) -> usize {
    let l = get();
    let mut c = 0;
    crate::unroll20!(i, {
        if i < l.n && l.k[i] == k {
            c += 1;
        }
    });
    c
}

/// Does any Write/Copy-destination/Punch event on file `file` intersect [lo, hi)?
pub fn touches(file: usize, lo: usize, hi: usize) -> bool {
    let l = get();
    let mut hit = false;
    crate::unroll20!(i, {
        if i < l.n {
            let (s, e, f) = match l.k[i] {
                K::Write | K::Punch => (l.b[i], l.b[i] + l.c[i], l.a[i]),
                K::Copy => (l.b[i], l.b[i] + l.c[i], crate::fs::DATA),
                _ => (0, 0, usize::MAX),
            };
            if f == file && s < e && s < hi && lo < e {
                hit = true;
            }
        }
    });
    hit
}
const _: () = assert!(NEV == 20);
