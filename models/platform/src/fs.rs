//! Model of the `std::fs` subset used by rawdb (and vecdb's IO sources).
//!
//! A `File` is an index into a global table of file states.  Identity comes from the last path
//! component: ".../data" = DATA, ".../regions" = REGIONS, anything else = OTHER.  A file state has
//! a length, an advisory-lock flag ("somebody else holds the lock" - set by the harness, possibly
//! symbolic), and optionally a tiny backing byte buffer (contract mode).  Every effect is appended
//! to the ghost log.  Fallible calls fail when the harness armed the corresponding fault flag.

use std::io;
use std::path::Path;

use crate::ghost::{self, K};

pub const NFILE: usize = 4;
pub const DATA: usize = 0;
pub const REGIONS: usize = 1;
pub const OTHER: usize = 2;

#[derive(Clone, Copy)]
pub struct FileState {
    pub len: usize,
    /// another holder has the advisory lock (try_lock fails)
    pub locked_elsewhere: bool,
    /// this process took the lock
    pub locked: bool,
    /// number of live handles on the open file description that holds the lock (the kernel keeps an
    /// advisory lock until the last duplicate of the locking descriptor is closed)
    pub lock_refs: usize,
    /// backing bytes (contract mode) or null (ghost mode)
    pub buf: *mut u8,
    pub cap: usize,
}

pub struct Fs {
    pub files: [FileState; NFILE],
    pub fail_set_len: bool,
    pub fail_sync: bool,
    pub fail_flush: bool,
    pub fail_open: bool,
    pub fail_mkdir: bool,
    pub fail_mmap: bool,
    /// open-harness mode (any value but `usize::MAX`; counts the opens): resolve the file from the length of
    /// the last path component; `usize::MAX` = resolve it from the last bytes of the path
    pub open_seq: usize,
}

const FS0: FileState =
    FileState { len: 0, locked_elsewhere: false, locked: false, lock_refs: 0, buf: core::ptr::null_mut(), cap: 0 };

pub static mut FS: Fs = Fs {
    files: [FS0; NFILE],
    fail_set_len: false,
    fail_sync: false,
    fail_flush: false,
    fail_open: false,
    fail_mkdir: false,
    fail_mmap: false,
    open_seq: usize::MAX,
};

#[inline]
pub fn state() -> &'static mut Fs {
    #[allow(static_mut_refs)]
    unsafe {
        &mut *core::ptr::addr_of_mut!(FS)
    }
}

#[inline]
pub fn err() -> io::Error {
    io::Error::from(io::ErrorKind::Other)
}

fn id_of(path: &Path) -> usize {
    // last bytes of the path (no UTF-8 validation, no component iteration)
    let b = path.as_os_str().as_encoded_bytes();
    let n = b.len();
    if n >= 4 && b[n - 4] == b'd' && b[n - 3] == b'a' && b[n - 2] == b't' && b[n - 1] == b'a' {
        DATA
    } else if n >= 7 && b[n - 7] == b'r' && b[n - 1] == b's' {
        REGIONS
    } else {
        OTHER
    }
}

fn resolve(path: &Path) -> usize {
    if state().open_seq != usize::MAX {
        // open harness: the path stubs reduce every path to its last component, whose *length* is a
        // constant for the solver even where its bytes are not ("data" / "regions"); independent of
        // the order in which the code under test opens its files
        state().open_seq += 1;
        match path.as_os_str().len() {
            4 => DATA,
            7 => REGIONS,
            _ => OTHER,
        }
    } else {
        id_of(path)
    }
}

pub fn create_dir_all<P: AsRef<Path>>(_p: P) -> io::Result<()> {
    if state().fail_mkdir { Err(err()) } else { Ok(()) }
}

#[derive(Debug)]
pub struct File {
    pub id: usize,
    pub pos: usize,
    /// this handle belongs to the open file description that took the advisory lock
    holder: core::sync::atomic::AtomicBool,
}

#[cfg(feature = "teardown")]
impl Drop for File {
    fn drop(&mut self) {
        if self.holder.load(core::sync::atomic::Ordering::Relaxed) {
            let f = &mut state().files[self.id];
            f.lock_refs -= 1;
            if f.lock_refs == 0 {
                f.locked = false;
            }
        }
    }
}

impl File {
    /// Model-only constructor.
    pub fn verif_new(id: usize) -> Self {
        Self { id, pos: 0, holder: core::sync::atomic::AtomicBool::new(false) }
    }
    /// A second handle on the same open file description (shares the file's state, lock included).
    pub fn try_clone(&self) -> io::Result<File> {
        let h = self.holder.load(core::sync::atomic::Ordering::Relaxed);
        if h {
            state().files[self.id].lock_refs += 1;
        }
        Ok(Self { id: self.id, pos: self.pos, holder: core::sync::atomic::AtomicBool::new(h) })
    }
    pub fn open<P: AsRef<Path>>(p: P) -> io::Result<File> {
        if state().fail_open {
            return Err(err());
        }
        let id = resolve(p.as_ref());
        ghost::log(K::Open, id, 0, 0);
        Ok(File::verif_new(id))
    }
    pub fn metadata(&self) -> io::Result<Metadata> {
        Ok(Metadata { len: state().files[self.id].len as u64 })
    }
    pub fn set_len(&self, len: u64) -> io::Result<()> {
        if state().fail_set_len {
            return Err(err());
        }
        let f = &mut state().files[self.id];
        if !f.buf.is_null() {
            assert!(len as usize <= f.cap, "VERIF: bound exceeded: contract-mode file capacity");
        }
        f.len = len as usize;
        ghost::log(K::SetLen, self.id, len as usize, 0);
        Ok(())
    }
    pub fn sync_all(&self) -> io::Result<()> {
        if state().fail_sync {
            return Err(err());
        }
        ghost::log(K::Sync, self.id, 1, 0);
        Ok(())
    }
    pub fn sync_data(&self) -> io::Result<()> {
        if state().fail_sync {
            return Err(err());
        }
        ghost::log(K::Sync, self.id, 0, 0);
        Ok(())
    }
    pub fn try_lock(&self) -> Result<(), std::fs::TryLockError> {
        let f = &mut state().files[self.id];
        if f.locked_elsewhere {
            ghost::log(K::TryLock, self.id, 0, 0);
            Err(std::fs::TryLockError::WouldBlock)
        } else {
            f.locked = true;
            if !self.holder.swap(true, core::sync::atomic::Ordering::Relaxed) {
                f.lock_refs += 1;
            }
            ghost::log(K::TryLock, self.id, 1, 0);
            Ok(())
        }
    }
}

impl std::os::unix::io::AsRawFd for File {
    fn as_raw_fd(&self) -> std::os::unix::io::RawFd {
        self.id as i32
    }
}

impl io::Read for File {
    fn read(&mut self, out: &mut [u8]) -> io::Result<usize> {
        let f = &state().files[self.id];
        let pos = self.pos;
        let avail = f.len.saturating_sub(pos);
        let n = if out.len() < avail { out.len() } else { avail };
        ghost::access(self.id, pos, n);
        assert!(!f.buf.is_null(), "VERIF: file read in ghost mode");
        let mut i = 0;
        while i < n {
            out[i] = unsafe { *f.buf.add(pos + i) };
            i += 1;
        }
        self.pos = pos + n;
        Ok(n)
    }
}
impl io::Seek for File {
    fn seek(&mut self, p: io::SeekFrom) -> io::Result<u64> {
        match p {
            io::SeekFrom::Start(o) => self.pos = o as usize,
            io::SeekFrom::Current(d) => self.pos = (self.pos as i64 + d) as usize,
            io::SeekFrom::End(d) => {
                self.pos = (state().files[self.id].len as i64 + d) as usize
            }
        }
        Ok(self.pos as u64)
    }
}

pub struct Metadata {
    len: u64,
}
impl Metadata {
    #[allow(clippy::len_without_is_empty)]
    pub fn len(&self) -> u64 {
        self.len
    }
}

#[derive(Default)]
pub struct OpenOptions {
    truncate: bool,
    create: bool,
}
impl OpenOptions {
    pub fn new() -> Self {
        Self::default()
    }
    pub fn read(&mut self, _b: bool) -> &mut Self {
        self
    }
    pub fn write(&mut self, _b: bool) -> &mut Self {
        self
    }
    pub fn create(&mut self, b: bool) -> &mut Self {
        self.create = b;
        self
    }
    pub fn truncate(&mut self, b: bool) -> &mut Self {
        self.truncate = b;
        self
    }
    pub fn open<P: AsRef<Path>>(&self, p: P) -> io::Result<File> {
        if state().fail_open {
            return Err(err());
        }
        let id = resolve(p.as_ref());
        ghost::log(K::Open, id, self.truncate as usize, 0);
        if self.truncate {
            state().files[id].len = 0;
        }
        Ok(File::verif_new(id))
    }
}
