//! Fixed-capacity ordered map / set models (sorted array, concrete loop bounds, concrete indices).
//!
//! `BTreeMap<K,V>` keeps its entries sorted in `[Option<K>; CAP]` / `[Option<V>; CAP]`; every loop
//! runs over the concrete capacity and only *conditions* are symbolic, so no symbolic pointers or
//! symbolic-size allocations arise.  Exceeding CAP is an assertion failure (bound exceeded =>
//! reported).  `HashMap`/`HashSet` are the same structure (iteration order of the std types is
//! unspecified; sorted order is one legal order).
//!
//! Trusted: that this file implements ordered-map semantics; /verif/models/platform/tests/
//! runs it differentially against std on scripted operation sequences (setup time).

use core::borrow::Borrow;
use core::fmt;
use core::ops::{Bound, RangeBounds};

pub const CAP: usize = 4;
/// longest string key (bytes) the model compares; longer keys are a reported bound violation
pub const KEYLEN: usize = 8;
const _: () = assert!(KEYLEN == 8);

/// Key comparison with concrete loop bounds (std's `str` comparison is a memcmp whose length CBMC
/// does not fold: it unwinds to the bound on every lookup).
pub trait VKey {
    fn vcmp(&self, other: &Self) -> core::cmp::Ordering;
}
macro_rules! vkey_int {
    ($($t:ty),*) => { $( impl VKey for $t { #[inline] fn vcmp(&self, o: &Self) -> core::cmp::Ordering { self.cmp(o) } } )* };
}
vkey_int!(usize, u64, u32, u16, u8, i64, ());
impl VKey for str {
    /// Total order: by length first, then bytewise (bounded).  Any consistent total order is a legal
    /// `HashMap` iteration order; equal-length keys longer than KEYLEN are a reported bound violation.
    fn vcmp(&self, o: &str) -> core::cmp::Ordering {
        let (a, b) = (self.as_bytes(), o.as_bytes());
        if a.len() != b.len() {
            return a.len().cmp(&b.len());
        }
        assert!(a.len() <= KEYLEN, "VERIF: bound exceeded: model map string key length");
        let mut res = core::cmp::Ordering::Equal;
        let mut done = false;
        crate::unroll8!(i, {
            if !done && i < a.len() && a[i] != b[i] {
                res = a[i].cmp(&b[i]);
                done = true;
            }
        });
        return res;
        core::cmp::Ordering::Equal
    }
}
impl VKey for String {
    #[inline]
    fn vcmp(&self, o: &String) -> core::cmp::Ordering {
        self.as_str().vcmp(o.as_str())
    }
}

/// Storage.  `scratch_*`: the entry most recently handed out by `get_mut`/`entry` is *moved* into
/// the scratch slot (a concrete address) and moved back (`sync`) at the start of the next
/// operation, so a `&mut V` never is a pointer with a symbolic offset into the arrays (a write
/// through such a pointer is a byte-level update of the whole map object: measured 13x blow-up).
struct Inner<K, V> {
    keys: [Option<K>; CAP],
    vals: [Option<V>; CAP],
    len: usize,
    scratch_v: Option<V>,
    scratch_pos: usize,
}

pub struct BTreeMap<K, V> {
    i: core::cell::UnsafeCell<Inner<K, V>>,
}
unsafe impl<K: Send, V: Send> Send for BTreeMap<K, V> {}
unsafe impl<K: Sync, V: Sync> Sync for BTreeMap<K, V> {}

pub type HashMap<K, V> = BTreeMap<K, V>;
pub type HashSet<K> = BTreeSet<K>;

impl<K, V> Default for BTreeMap<K, V> {
    fn default() -> Self {
        Self::new()
    }
}

impl<K: fmt::Debug, V: fmt::Debug> fmt::Debug for BTreeMap<K, V> {
    fn fmt(&self, _f: &mut fmt::Formatter<'_>) -> fmt::Result {
        Ok(())
    }
}

#[inline(always)]
unsafe fn mv<T>(dst: &mut Option<T>, src: &mut Option<T>) {
    // move without drop glue: dst is None by invariant
    unsafe {
        core::ptr::write(dst, core::ptr::read(src));
        core::ptr::write(src, None);
    }
}

impl<K, V> BTreeMap<K, V> {
    pub const fn new() -> Self {
        Self {
            i: core::cell::UnsafeCell::new(Inner {
                keys: [const { None }; CAP],
                vals: [const { None }; CAP],
                len: 0,
                scratch_v: None,
                scratch_pos: CAP,
            }),
        }
    }
    /// synced view
    #[allow(clippy::mut_from_ref)]
    #[inline]
    fn me(&self) -> &mut Inner<K, V> {
        let m = unsafe { &mut *self.i.get() };
        if m.scratch_pos < CAP {
            let mut i = 0;
            while i < CAP {
                if i == m.scratch_pos {
                    unsafe { mv(&mut m.vals[i], &mut m.scratch_v) };
                }
                i += 1;
            }
            m.scratch_pos = CAP;
        }
        m
    }
    #[inline]
    pub fn len(&self) -> usize {
        self.me().len
    }
    #[inline]
    pub fn is_empty(&self) -> bool {
        self.me().len == 0
    }
    pub fn clear(&mut self) {
        let m = self.me();
        let mut j = 0;
        while j < CAP {
            m.keys[j] = None;
            m.vals[j] = None;
            j += 1;
        }
        m.len = 0;
    }
    /// Model-only: entry at sorted position `j`, for harness observers.
    pub fn verif_at(&self, j: usize) -> Option<(&K, &V)> {
        let m = self.me();
        if j < m.len {
            match (&m.keys[j], &m.vals[j]) {
                (Some(k), Some(v)) => Some((k, v)),
                _ => None,
            }
        } else {
            None
        }
    }
    /// Model-only: append an entry whose key is larger than every key present (state builders).
    pub fn verif_push_back(&mut self, k: K, v: V) {
        let m = self.me();
        assert!(m.len < CAP, "VERIF: bound exceeded: model map capacity");
        let mut k = Some(k);
        let mut v = Some(v);
        let mut i = 0;
        while i < CAP {
            if i == m.len {
                unsafe {
                    mv(&mut m.keys[i], &mut k);
                    mv(&mut m.vals[i], &mut v);
                }
            }
            i += 1;
        }
        core::mem::forget(k);
        core::mem::forget(v);
        m.len += 1;
    }
    pub fn iter(&self) -> Iter<'_, K, V> {
        let m = self.me();
        Iter { m, lo: 0, hi: m.len }
    }
    pub fn keys(&self) -> Keys<'_, K, V> {
        Keys(self.iter())
    }
    pub fn values(&self) -> Values<'_, K, V> {
        Values(self.iter())
    }
    pub fn first_key_value(&self) -> Option<(&K, &V)> {
        self.verif_at(0)
    }
    pub fn last_key_value(&self) -> Option<(&K, &V)> {
        let m = self.me();
        let mut j = CAP;
        while j > 0 {
            j -= 1;
            if j + 1 == m.len {
                return match (&m.keys[j], &m.vals[j]) {
                    (Some(k), Some(v)) => Some((k, v)),
                    _ => None,
                };
            }
        }
        None
    }
}

impl<K, V> Inner<K, V> {
    /// sorted position of the first key >= k (in 0..=len), by concrete scan
    fn lower_bound<Q: ?Sized + VKey>(&self, k: &Q) -> usize
    where
        K: Borrow<Q>,
    {
        let mut pos = 0;
        let mut j = 0;
        while j < CAP {
            if j < self.len {
                if let Some(kj) = &self.keys[j] {
                    if kj.borrow().vcmp(k) == core::cmp::Ordering::Less {
                        pos = j + 1;
                    }
                }
            }
            j += 1;
        }
        pos
    }
    /// sorted position of the first key > k
    fn upper_bound<Q: ?Sized + VKey>(&self, k: &Q) -> usize
    where
        K: Borrow<Q>,
    {
        let mut pos = 0;
        let mut j = 0;
        while j < CAP {
            if j < self.len {
                if let Some(kj) = &self.keys[j] {
                    if kj.borrow().vcmp(k) != core::cmp::Ordering::Greater {
                        pos = j + 1;
                    }
                }
            }
            j += 1;
        }
        pos
    }
    /// position of key k, or CAP
    fn find<Q: ?Sized + VKey>(&self, k: &Q) -> usize
    where
        K: Borrow<Q>,
    {
        let mut pos = CAP;
        let mut j = 0;
        while j < CAP {
            if j < self.len {
                if let Some(kj) = &self.keys[j] {
                    if kj.borrow().vcmp(k) == core::cmp::Ordering::Equal {
                        pos = j;
                    }
                }
            }
            j += 1;
        }
        pos
    }
    fn remove_at(&mut self, pos: usize) -> Option<(K, V)> {
        let mut outk: Option<K> = None;
        let mut outv: Option<V> = None;
        let mut i = 0;
        while i < CAP {
            if i == pos {
                unsafe {
                    mv(&mut outk, &mut self.keys[i]);
                    mv(&mut outv, &mut self.vals[i]);
                }
            }
            i += 1;
        }
        // shift left
        let mut j = 0;
        while j + 1 < CAP {
            if j >= pos && j + 1 < self.len {
                let (a, b) = self.keys.split_at_mut(j + 1);
                unsafe { mv(&mut a[j], &mut b[0]) };
                let (a, b) = self.vals.split_at_mut(j + 1);
                unsafe { mv(&mut a[j], &mut b[0]) };
            }
            j += 1;
        }
        self.len -= 1;
        match (outk, outv) {
            (Some(k), Some(v)) => Some((k, v)),
            (k, v) => {
                core::mem::forget(k);
                core::mem::forget(v);
                None
            }
        }
    }
}

impl<K: VKey, V> BTreeMap<K, V> {
    pub fn contains_key<Q: ?Sized + VKey>(&self, k: &Q) -> bool
    where
        K: Borrow<Q>,
    {
        self.me().find(k) < CAP
    }
    pub fn get<Q: ?Sized + VKey>(&self, k: &Q) -> Option<&V>
    where
        K: Borrow<Q>,
    {
        let m = self.me();
        let mut j = 0;
        while j < CAP {
            if j < m.len {
                if let Some(kj) = &m.keys[j] {
                    if kj.borrow().vcmp(k) == core::cmp::Ordering::Equal {
                        return m.vals[j].as_ref();
                    }
                }
            }
            j += 1;
        }
        None
    }
    pub fn get_mut<Q: ?Sized + VKey>(&mut self, k: &Q) -> Option<&mut V>
    where
        K: Borrow<Q>,
    {
        let m = self.me();
        let pos = m.find(k);
        if pos >= CAP {
            return None;
        }
        // move the value into the scratch slot (concrete address)
        let mut j = 0;
        while j < CAP {
            if j == pos {
                unsafe { mv(&mut m.scratch_v, &mut m.vals[j]) };
            }
            j += 1;
        }
        m.scratch_pos = pos;
        m.scratch_v.as_mut()
    }

    pub fn insert(&mut self, k: K, v: V) -> Option<V> {
        let m = self.me();
        let j = m.find(&k);
        if j < CAP {
            let mut i = 0;
            let mut v = Some(v);
            let mut old = None;
            while i < CAP {
                if i == j {
                    unsafe {
                        mv(&mut old, &mut m.vals[i]);
                        mv(&mut m.vals[i], &mut v);
                    }
                }
                i += 1;
            }
            core::mem::forget(v);
            return old;
        }
        assert!(m.len < CAP, "VERIF: bound exceeded: model map capacity");
        let pos = m.lower_bound(&k);
        // shift right (typed moves, no drop glue: slots >= len are None by invariant)
        let mut j = CAP - 1;
        while j > 0 {
            if j > pos && j <= m.len {
                let (a, b) = m.keys.split_at_mut(j);
                unsafe { mv(&mut b[0], &mut a[j - 1]) };
                let (a, b) = m.vals.split_at_mut(j);
                unsafe { mv(&mut b[0], &mut a[j - 1]) };
            }
            j -= 1;
        }
        let mut k = Some(k);
        let mut v = Some(v);
        let mut i = 0;
        while i < CAP {
            if i == pos {
                unsafe {
                    mv(&mut m.keys[i], &mut k);
                    mv(&mut m.vals[i], &mut v);
                }
            }
            i += 1;
        }
        core::mem::forget(k);
        core::mem::forget(v);
        m.len += 1;
        None
    }

    pub fn remove<Q: ?Sized + VKey>(&mut self, k: &Q) -> Option<V>
    where
        K: Borrow<Q>,
    {
        let m = self.me();
        let pos = m.find(k);
        if pos >= CAP {
            return None;
        }
        m.remove_at(pos).map(|(_, v)| v)
    }
    pub fn pop_first(&mut self) -> Option<(K, V)> {
        let m = self.me();
        if m.len == 0 { None } else { m.remove_at(0) }
    }
    pub fn pop_last(&mut self) -> Option<(K, V)> {
        let m = self.me();
        if m.len == 0 { None } else { m.remove_at(m.len - 1) }
    }

    pub fn entry(&mut self, k: K) -> Entry<'_, K, V> {
        Entry { m: self, k }
    }

    pub fn range<Q: ?Sized + VKey, R: RangeBounds<Q>>(&self, r: R) -> Iter<'_, K, V>
    where
        K: Borrow<Q>,
    {
        let m = self.me();
        let lo = match r.start_bound() {
            Bound::Unbounded => 0,
            Bound::Included(k) => m.lower_bound(k),
            Bound::Excluded(k) => m.upper_bound(k),
        };
        let hi = match r.end_bound() {
            Bound::Unbounded => m.len,
            Bound::Included(k) => m.upper_bound(k),
            Bound::Excluded(k) => m.lower_bound(k),
        };
        Iter { m, lo, hi: if hi < lo { lo } else { hi } }
    }

    pub fn retain<F: FnMut(&K, &mut V) -> bool>(&mut self, mut f: F) {
        let m = self.me();
        let mut j = CAP;
        while j > 0 {
            j -= 1;
            if j < m.len {
                let keep = match (&m.keys[j], &mut m.vals[j]) {
                    (Some(k), Some(v)) => f(k, v),
                    _ => true,
                };
                if !keep {
                    m.remove_at(j);
                }
            }
        }
    }
    pub fn extend<I: IntoIterator<Item = (K, V)>>(&mut self, it: I) {
        for (k, v) in it {
            self.insert(k, v);
        }
    }
    /// Splits the map at `key`: returns everything >= key.
    pub fn split_off<Q: ?Sized + VKey>(&mut self, key: &Q) -> Self
    where
        K: Borrow<Q>,
    {
        let m = self.me();
        let pos = m.lower_bound(key);
        let out = Self::new();
        let o = out.me();
        let mut j = 0;
        while j < CAP {
            if j >= pos && j < m.len {
                // move entry j to position j - pos of the result (concrete scan)
                let mut t = 0;
                while t < CAP {
                    if t + pos == j {
                        unsafe {
                            mv(&mut o.keys[t], &mut m.keys[j]);
                            mv(&mut o.vals[t], &mut m.vals[j]);
                        }
                    }
                    t += 1;
                }
            }
            j += 1;
        }
        if pos < m.len {
            o.len = m.len - pos;
            m.len = pos;
        }
        out
    }
}

impl<K: Clone, V: Clone> Clone for BTreeMap<K, V> {
    fn clone(&self) -> Self {
        let m = self.me();
        Self {
            i: core::cell::UnsafeCell::new(Inner {
                keys: m.keys.clone(),
                vals: m.vals.clone(),
                len: m.len,
                scratch_v: None,
                scratch_pos: CAP,
            }),
        }
    }
}
impl<K: PartialEq, V: PartialEq> PartialEq for BTreeMap<K, V> {
    fn eq(&self, o: &Self) -> bool {
        let (a, b) = (self.me(), o.me());
        if a.len != b.len {
            return false;
        }
        let mut j = 0;
        let mut eq = true;
        while j < CAP {
            if j < a.len && (a.keys[j] != b.keys[j] || a.vals[j] != b.vals[j]) {
                eq = false;
            }
            j += 1;
        }
        eq
    }
}
impl<K: Eq, V: Eq> Eq for BTreeMap<K, V> {}

pub struct Entry<'a, K, V> {
    m: &'a mut BTreeMap<K, V>,
    k: K,
}
impl<'a, K: VKey + Clone, V> Entry<'a, K, V> {
    pub fn or_insert_with<F: FnOnce() -> V>(self, f: F) -> &'a mut V {
        if !self.m.contains_key(&self.k) {
            self.m.insert(self.k.clone(), f());
        }
        self.m.get_mut(&self.k).unwrap()
    }
    pub fn or_default(self) -> &'a mut V
    where
        V: Default,
    {
        self.or_insert_with(V::default)
    }
    pub fn or_insert(self, v: V) -> &'a mut V {
        self.or_insert_with(|| v)
    }
}

pub struct Iter<'a, K, V> {
    m: &'a Inner<K, V>,
    lo: usize,
    hi: usize,
}
impl<K, V> Clone for Iter<'_, K, V> {
    fn clone(&self) -> Self {
        Self { m: self.m, lo: self.lo, hi: self.hi }
    }
}
impl<'a, K, V> Iterator for Iter<'a, K, V> {
    type Item = (&'a K, &'a V);
    #[inline]
    fn next(&mut self) -> Option<Self::Item> {
        if self.lo < self.hi {
            let j = self.lo;
            self.lo += 1;
            // concrete scan: the references returned are a choice among concrete slots
            let mut i = 0;
            while i < CAP {
                if i == j {
                    return match (&self.m.keys[i], &self.m.vals[i]) {
                        (Some(k), Some(v)) => Some((k, v)),
                        _ => None,
                    };
                }
                i += 1;
            }
            None
        } else {
            None
        }
    }
    fn size_hint(&self) -> (usize, Option<usize>) {
        let n = self.hi - self.lo;
        (n, Some(n))
    }
}
impl<'a, K, V> DoubleEndedIterator for Iter<'a, K, V> {
    #[inline]
    fn next_back(&mut self) -> Option<Self::Item> {
        if self.lo < self.hi {
            self.hi -= 1;
            let j = self.hi;
            let mut i = 0;
            while i < CAP {
                if i == j {
                    return match (&self.m.keys[i], &self.m.vals[i]) {
                        (Some(k), Some(v)) => Some((k, v)),
                        _ => None,
                    };
                }
                i += 1;
            }
            None
        } else {
            None
        }
    }
}
impl<K, V> ExactSizeIterator for Iter<'_, K, V> {}

pub struct Keys<'a, K, V>(Iter<'a, K, V>);
impl<'a, K, V> Iterator for Keys<'a, K, V> {
    type Item = &'a K;
    fn next(&mut self) -> Option<&'a K> {
        self.0.next().map(|(k, _)| k)
    }
    fn size_hint(&self) -> (usize, Option<usize>) {
        self.0.size_hint()
    }
}
impl<'a, K, V> DoubleEndedIterator for Keys<'a, K, V> {
    fn next_back(&mut self) -> Option<&'a K> {
        self.0.next_back().map(|(k, _)| k)
    }
}
impl<K, V> ExactSizeIterator for Keys<'_, K, V> {}
pub struct Values<'a, K, V>(Iter<'a, K, V>);
impl<'a, K, V> Iterator for Values<'a, K, V> {
    type Item = &'a V;
    fn next(&mut self) -> Option<&'a V> {
        self.0.next().map(|(_, v)| v)
    }
}

impl<'a, K, V> IntoIterator for &'a BTreeMap<K, V> {
    type Item = (&'a K, &'a V);
    type IntoIter = Iter<'a, K, V>;
    fn into_iter(self) -> Iter<'a, K, V> {
        self.iter()
    }
}

pub struct IntoIter<K, V> {
    m: BTreeMap<K, V>,
    lo: usize,
}
impl<K, V> Iterator for IntoIter<K, V> {
    type Item = (K, V);
    fn next(&mut self) -> Option<(K, V)> {
        let m = self.m.me();
        if self.lo < m.len {
            let j = self.lo;
            self.lo += 1;
            let mut i = 0;
            while i < CAP {
                if i == j {
                    return match (m.keys[i].take(), m.vals[i].take()) {
                        (Some(k), Some(v)) => Some((k, v)),
                        _ => None,
                    };
                }
                i += 1;
            }
            None
        } else {
            None
        }
    }
}
impl<K, V> IntoIterator for BTreeMap<K, V> {
    type Item = (K, V);
    type IntoIter = IntoIter<K, V>;
    fn into_iter(self) -> IntoIter<K, V> {
        IntoIter { m: self, lo: 0 }
    }
}
impl<K: VKey, V> FromIterator<(K, V)> for BTreeMap<K, V> {
    fn from_iter<I: IntoIterator<Item = (K, V)>>(it: I) -> Self {
        let mut m = Self::new();
        for (k, v) in it {
            m.insert(k, v);
        }
        m
    }
}

// ------------------------------------------------------------------------------------------
pub struct BTreeSet<K> {
    m: BTreeMap<K, ()>,
}
impl<K> Default for BTreeSet<K> {
    fn default() -> Self {
        Self::new()
    }
}
impl<K: fmt::Debug> fmt::Debug for BTreeSet<K> {
    fn fmt(&self, _f: &mut fmt::Formatter<'_>) -> fmt::Result {
        Ok(())
    }
}
impl<K: Clone> Clone for BTreeSet<K> {
    fn clone(&self) -> Self {
        Self { m: self.m.clone() }
    }
}
impl<K: PartialEq> PartialEq for BTreeSet<K> {
    fn eq(&self, o: &Self) -> bool {
        self.m == o.m
    }
}
impl<K: Eq> Eq for BTreeSet<K> {}
impl<K> BTreeSet<K> {
    pub const fn new() -> Self {
        Self { m: BTreeMap::new() }
    }
    pub fn len(&self) -> usize {
        self.m.len()
    }
    pub fn is_empty(&self) -> bool {
        self.m.is_empty()
    }
    pub fn clear(&mut self) {
        self.m.clear()
    }
    pub fn iter(&self) -> Keys<'_, K, ()> {
        self.m.keys()
    }
    pub fn first(&self) -> Option<&K> {
        self.m.first_key_value().map(|(k, _)| k)
    }
    pub fn last(&self) -> Option<&K> {
        self.m.last_key_value().map(|(k, _)| k)
    }
    pub fn verif_at(&self, j: usize) -> Option<&K> {
        self.m.verif_at(j).map(|(k, _)| k)
    }
}
impl<K: VKey> BTreeSet<K> {
    pub fn insert(&mut self, k: K) -> bool {
        if self.m.contains_key(&k) {
            false
        } else {
            self.m.insert(k, ());
            true
        }
    }
    pub fn remove<Q: ?Sized + VKey>(&mut self, k: &Q) -> bool
    where
        K: Borrow<Q>,
    {
        self.m.remove(k).is_some()
    }
    pub fn contains<Q: ?Sized + VKey>(&self, k: &Q) -> bool
    where
        K: Borrow<Q>,
    {
        self.m.contains_key(k)
    }
    pub fn pop_first(&mut self) -> Option<K> {
        self.m.pop_first().map(|(k, _)| k)
    }
    pub fn pop_last(&mut self) -> Option<K> {
        self.m.pop_last().map(|(k, _)| k)
    }
    pub fn range<Q: ?Sized + VKey, R: RangeBounds<Q>>(&self, r: R) -> Keys<'_, K, ()>
    where
        K: Borrow<Q>,
    {
        Keys(self.m.range(r))
    }
    pub fn retain<F: FnMut(&K) -> bool>(&mut self, mut f: F) {
        self.m.retain(|k, _| f(k))
    }
    pub fn split_off<Q: ?Sized + VKey>(&mut self, key: &Q) -> Self
    where
        K: Borrow<Q>,
    {
        Self { m: self.m.split_off(key) }
    }
    pub fn extend<I: IntoIterator<Item = K>>(&mut self, it: I) {
        for k in it {
            self.insert(k);
        }
    }
}
impl<'a, K> IntoIterator for &'a BTreeSet<K> {
    type Item = &'a K;
    type IntoIter = Keys<'a, K, ()>;
    fn into_iter(self) -> Self::IntoIter {
        self.iter()
    }
}
pub struct SetIntoIter<K>(IntoIter<K, ()>);
impl<K> Iterator for SetIntoIter<K> {
    type Item = K;
    fn next(&mut self) -> Option<K> {
        self.0.next().map(|(k, _)| k)
    }
}
impl<K> IntoIterator for BTreeSet<K> {
    type Item = K;
    type IntoIter = SetIntoIter<K>;
    fn into_iter(self) -> SetIntoIter<K> {
        SetIntoIter(self.m.into_iter())
    }
}
impl<K: VKey> FromIterator<K> for BTreeSet<K> {
    fn from_iter<I: IntoIterator<Item = K>>(it: I) -> Self {
        let mut s = Self::new();
        for k in it {
            s.insert(k);
        }
        s
    }
}

// ------------------------------------------------------------------------------------------
pub mod smallvec {
    //! `SmallVec<[T; N]>` model with fixed capacity SV_CAP (independent of N).
    use core::fmt;
    pub const SV_CAP: usize = 3;

    pub trait Array {
        type Item;
    }
    impl<T, const N: usize> Array for [T; N] {
        type Item = T;
    }

    pub struct SmallVec<A: Array> {
        items: [Option<A::Item>; SV_CAP],
        len: usize,
    }
    impl<A: Array> Default for SmallVec<A> {
        fn default() -> Self {
            Self::new()
        }
    }
    impl<A: Array> fmt::Debug for SmallVec<A> {
        fn fmt(&self, _f: &mut fmt::Formatter<'_>) -> fmt::Result {
            Ok(())
        }
    }
    impl<A: Array> SmallVec<A> {
        pub fn new() -> Self {
            Self { items: [const { None }; SV_CAP], len: 0 }
        }
        pub fn len(&self) -> usize {
            self.len
        }
        pub fn is_empty(&self) -> bool {
            self.len == 0
        }
        pub fn push(&mut self, v: A::Item) {
            assert!(self.len < SV_CAP, "VERIF: bound exceeded: model SmallVec capacity");
            let mut v = Some(v);
            let mut i = 0;
            while i < SV_CAP {
                if i == self.len {
                    self.items[i] = v.take();
                }
                i += 1;
            }
            self.len += 1;
        }
        pub fn first(&self) -> Option<&A::Item> {
            if self.len == 0 { None } else { self.items[0].as_ref() }
        }
        pub fn verif_at(&self, j: usize) -> Option<&A::Item> {
            if j < self.len { self.items[j].as_ref() } else { None }
        }
        pub fn retain<F: FnMut(&mut A::Item) -> bool>(&mut self, mut f: F) {
            // stable compaction with concrete indices
            let mut out: [Option<A::Item>; SV_CAP] = [const { None }; SV_CAP];
            let mut n = 0;
            let mut i = 0;
            while i < SV_CAP {
                if i < self.len {
                    if let Some(mut x) = self.items[i].take() {
                        if f(&mut x) {
                            let mut x = Some(x);
                            let mut j = 0;
                            while j < SV_CAP {
                                if j == n {
                                    out[j] = x.take();
                                }
                                j += 1;
                            }
                            n += 1;
                        }
                    }
                }
                i += 1;
            }
            self.items = out;
            self.len = n;
        }
        pub fn iter(&self) -> impl Iterator<Item = &A::Item> {
            let len = self.len;
            self.items.iter().enumerate().filter_map(move |(i, x)| if i < len { x.as_ref() } else { None })
        }
    }
}
