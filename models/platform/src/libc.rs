//! `libc` shim: everything from the real crate, with the three syscalls rawdb issues replaced
//! by models that log ghost events.
pub use ::libc::*;

use crate::ghost::{self, K};

/// pread of 1 byte (rawdb's punchable-data sampling): returns a symbolic byte.
/// # Safety
/// buf valid for `n` bytes
pub unsafe fn pread(fd: c_int, buf: *mut c_void, n: usize, off: off_t) -> isize {
    assert!(n == 1);
    ghost::access(fd as usize, off as usize, n);
    let ok = crate::any_bool();
    if !ok {
        return 0;
    }
    #[cfg(kani)]
    let b: u8 = kani::any();
    #[cfg(not(kani))]
    let b: u8 = 1;
    unsafe { *(buf as *mut u8) = b };
    1
}

/// # Safety
/// none
pub unsafe fn fallocate(fd: c_int, mode: c_int, off: off_t, len: off_t) -> c_int {
    assert!(
        mode == (FALLOC_FL_PUNCH_HOLE | FALLOC_FL_KEEP_SIZE),
        "VERIF: hole punch must keep the file size"
    );
    if crate::fs::state().fail_sync && crate::any_bool() {
        return -1;
    }
    ghost::log(K::Punch, fd as usize, off as usize, len as usize);
    0
}

/// # Safety
/// st valid
pub unsafe fn fstat(_fd: c_int, _st: *mut stat) -> c_int {
    0
}
