//! Sequential models of locks (`parking_lot` API subset) and of `std::sync::{Arc, Weak}`.
//!
//! Locks: lock *state* lives in a global table indexed by a per-lock id (assigned lazily at first
//! use from a concrete counter), so acquiring a lock never writes through a possibly-symbolic
//! object pointer.  A conflicting acquisition by the (single) executing thread is
//!   * in MAIN mode an assertion failure (self-deadlock: the thread would wait for itself),
//!   * in INTERFERENCE mode `assume(false)`: the code being run plays "the other thread", which
//!     would block here, so this placement of its step is infeasible.
//! Every acquisition / release is reported to the ghost lock tap (`ghost::tap_*`).
//!
//! Arc/Weak: a leaked box with a plain counter; nothing is ever torn down (DESIGN P11: CBMC cannot
//! fold the reference count of the real Arc and would explore `drop_slow` of the whole database
//! graph at every temporary `Database` drop).  `strong_count`, `ptr_eq`, `downgrade`/`upgrade`
//! keep their meaning.

use core::cell::{Cell, UnsafeCell};
use core::fmt;
use core::ops::{Deref, DerefMut};

use crate::ghost;

pub const NLOCK: usize = 20;

pub struct LockTable {
    pub readers: [u8; NLOCK],
    pub writer: [bool; NLOCK],
    pub class: [u8; NLOCK],
    /// contract mode: acquiring this lock is outside the harness's scope (allocator cut)
    pub cut: [bool; NLOCK],
    pub next: usize,
    pub interference: bool,
}

pub static mut LOCKS: LockTable = LockTable {
    readers: [0; NLOCK],
    writer: [false; NLOCK],
    class: [0; NLOCK],
    cut: [false; NLOCK],
    next: 1,
    interference: false,
};

#[inline]
fn table() -> &'static mut LockTable {
    #[allow(static_mut_refs)]
    unsafe {
        &mut *core::ptr::addr_of_mut!(LOCKS)
    }
}

/// Switch to interference mode (code now running plays another thread). Returns previous mode.
pub fn set_interference(on: bool) -> bool {
    let t = table();
    let old = t.interference;
    t.interference = on;
    old
}

/// Contract mode: any acquisition of lock `id` is a reported failure and ends the path (the
/// harness bounds sizes so that the allocator is never needed; symex does not prune on that).
pub fn set_cut(id: usize) {
    table().cut[id] = true;
}
#[inline]
fn check_cut(id: usize) {
    if table().cut[id] {
        assert!(false, "VERIF: bound exceeded: allocator (layout lock) reached in contract mode");
        crate::assume(false);
    }
}
/// Contract mode, robust form: every `RwLock<T>` whose payload has this size is cut (the id-based
/// table lookup is not constant-folded by CBMC for heap-allocated locks, so symex kept exploring
/// the allocator behind the layout lock).  rawdb registers `size_of::<Layout>()`.
pub static mut CUT_SIZE: usize = usize::MAX;
pub fn set_cut_size(n: usize) {
    unsafe { CUT_SIZE = n };
}
#[inline(always)]
fn check_cut_size(n: usize) {
    if n == unsafe { CUT_SIZE } {
        assert!(false, "VERIF: bound exceeded: allocator (layout lock) reached in contract mode");
        crate::assume(false);
    }
}
pub fn set_class(id: usize, class: u8) {
    table().class[id] = class;
}
pub fn class_of(id: usize) -> u8 {
    table().class[id]
}
pub fn readers_of(id: usize) -> u8 {
    table().readers[id]
}
pub fn writer_of(id: usize) -> bool {
    table().writer[id]
}
/// No lock at all is held (used for obligation O3).
pub fn nothing_held() -> bool {
    let t = table();
    let mut ok = true;
    crate::unroll20!(i, {
        if t.readers[i] != 0 || t.writer[i] {
            ok = false;
        }
    });
    ok
}
const _: () = assert!(NLOCK == 20);

#[inline]
fn blocked() {
    if table().interference {
        crate::assume(false);
    } else {
        panic!("VERIF: self-deadlock: lock requested while held incompatibly by the same thread");
    }
}

/// Raw lock: id + table state.
pub struct RawLock {
    id: Cell<usize>,
}

unsafe impl Send for RawLock {}
unsafe impl Sync for RawLock {}

impl RawLock {
    /// The id is assigned eagerly (a lazy assignment would be a write through a possibly
    /// symbolic object pointer at first use).
    pub fn new() -> Self {
        let t = table();
        let id = t.next;
        assert!(id < NLOCK, "VERIF: bound exceeded: too many locks");
        t.next = id + 1;
        Self { id: Cell::new(id) }
    }
    #[inline]
    pub fn id(&self) -> usize {
        self.id.get()
    }
    #[inline]
    pub fn acquire_shared(&self) {
        let id = self.id();
        check_cut(id);
        let t = table();
        ghost::tap_request(id, false);
        if t.writer[id] {
            blocked();
        }
        t.readers[id] += 1;
    }
    #[inline]
    pub fn release_shared(&self) {
        let id = self.id();
        let t = table();
        assert!(t.readers[id] > 0);
        t.readers[id] -= 1;
        ghost::tap_release(id, false);
    }
    #[inline]
    pub fn acquire_excl(&self) {
        let id = self.id();
        check_cut(id);
        let t = table();
        ghost::tap_request(id, true);
        if t.writer[id] || t.readers[id] != 0 {
            blocked();
        }
        t.writer[id] = true;
    }
    #[inline]
    pub fn release_excl(&self) {
        let id = self.id();
        let t = table();
        assert!(t.writer[id]);
        t.writer[id] = false;
        ghost::tap_release(id, true);
    }
}

pub mod lock_api {
    /// The two methods of `lock_api::RawRwLock` that vecdb's `ExitGuard` uses.
    pub trait RawRwLock {
        fn lock_shared(&self);
        /// # Safety
        /// caller holds a shared lock
        unsafe fn unlock_shared(&self);
    }
    impl RawRwLock for super::RawLock {
        fn lock_shared(&self) {
            self.acquire_shared()
        }
        unsafe fn unlock_shared(&self) {
            self.release_shared()
        }
    }
}

// ------------------------------------------------------------------------------------------
pub struct RwLock<T: ?Sized> {
    raw: RawLock,
    data: UnsafeCell<T>,
}
unsafe impl<T: ?Sized + Send> Send for RwLock<T> {}
unsafe impl<T: ?Sized + Send + Sync> Sync for RwLock<T> {}

impl<T> RwLock<T> {
    pub fn new(t: T) -> Self {
        Self { raw: RawLock::new(), data: UnsafeCell::new(t) }
    }
    pub fn into_inner(self) -> T {
        self.data.into_inner()
    }
}
impl<T: ?Sized> RwLock<T> {
    #[inline]
    pub fn read(&self) -> RwLockReadGuard<'_, T> {
        check_cut_size(core::mem::size_of_val(unsafe { &*self.data.get() }));
        self.raw.acquire_shared();
        RwLockReadGuard { lock: self }
    }
    #[inline]
    pub fn write(&self) -> RwLockWriteGuard<'_, T> {
        check_cut_size(core::mem::size_of_val(unsafe { &*self.data.get() }));
        self.raw.acquire_excl();
        RwLockWriteGuard { lock: self }
    }
    #[inline]
    pub fn get_mut(&mut self) -> &mut T {
        self.data.get_mut()
    }
    /// # Safety
    /// as parking_lot
    #[inline]
    pub unsafe fn raw(&self) -> &RawLock {
        &self.raw
    }
    /// Model-only: lock id (for harnesses: class registration and state queries).
    pub fn verif_id(&self) -> usize {
        self.raw.id()
    }
    /// Model-only: access without locking (harness state builders / observers).
    #[allow(clippy::mut_from_ref)]
    pub fn verif_peek(&self) -> &mut T {
        unsafe { &mut *self.data.get() }
    }
}
impl<T: Default> Default for RwLock<T> {
    fn default() -> Self {
        Self::new(T::default())
    }
}
impl<T: ?Sized> fmt::Debug for RwLock<T> {
    fn fmt(&self, _f: &mut fmt::Formatter<'_>) -> fmt::Result {
        Ok(())
    }
}

pub struct RwLockReadGuard<'a, T: ?Sized> {
    lock: &'a RwLock<T>,
}
impl<T: ?Sized> Deref for RwLockReadGuard<'_, T> {
    type Target = T;
    #[inline]
    fn deref(&self) -> &T {
        unsafe { &*self.lock.data.get() }
    }
}
impl<T: ?Sized> Drop for RwLockReadGuard<'_, T> {
    #[inline]
    fn drop(&mut self) {
        self.lock.raw.release_shared();
    }
}
unsafe impl<T: ?Sized + Sync> Sync for RwLockReadGuard<'_, T> {}
unsafe impl<T: ?Sized + Sync> Send for RwLockReadGuard<'_, T> {}

pub struct RwLockWriteGuard<'a, T: ?Sized> {
    lock: &'a RwLock<T>,
}
impl<T: ?Sized> Deref for RwLockWriteGuard<'_, T> {
    type Target = T;
    #[inline]
    fn deref(&self) -> &T {
        unsafe { &*self.lock.data.get() }
    }
}
impl<T: ?Sized> DerefMut for RwLockWriteGuard<'_, T> {
    #[inline]
    fn deref_mut(&mut self) -> &mut T {
        unsafe { &mut *self.lock.data.get() }
    }
}
impl<T: ?Sized> Drop for RwLockWriteGuard<'_, T> {
    #[inline]
    fn drop(&mut self) {
        self.lock.raw.release_excl();
    }
}
unsafe impl<T: ?Sized + Sync> Sync for RwLockWriteGuard<'_, T> {}

// ------------------------------------------------------------------------------------------
pub struct Mutex<T: ?Sized> {
    raw: RawLock,
    data: UnsafeCell<T>,
}
unsafe impl<T: ?Sized + Send> Send for Mutex<T> {}
unsafe impl<T: ?Sized + Send> Sync for Mutex<T> {}

impl<T> Mutex<T> {
    pub fn new(t: T) -> Self {
        Self { raw: RawLock::new(), data: UnsafeCell::new(t) }
    }
    pub fn into_inner(self) -> T {
        self.data.into_inner()
    }
}
impl<T: ?Sized> Mutex<T> {
    #[inline]
    pub fn lock(&self) -> MutexGuard<'_, T> {
        self.raw.acquire_excl();
        MutexGuard { lock: self }
    }
    pub fn get_mut(&mut self) -> &mut T {
        self.data.get_mut()
    }
    pub fn verif_id(&self) -> usize {
        self.raw.id()
    }
    #[allow(clippy::mut_from_ref)]
    pub fn verif_peek(&self) -> &mut T {
        unsafe { &mut *self.data.get() }
    }
}
impl<T: Default> Default for Mutex<T> {
    fn default() -> Self {
        Self::new(T::default())
    }
}
impl<T: ?Sized> fmt::Debug for Mutex<T> {
    fn fmt(&self, _f: &mut fmt::Formatter<'_>) -> fmt::Result {
        Ok(())
    }
}
pub struct MutexGuard<'a, T: ?Sized> {
    lock: &'a Mutex<T>,
}
impl<T: ?Sized> Deref for MutexGuard<'_, T> {
    type Target = T;
    #[inline]
    fn deref(&self) -> &T {
        unsafe { &*self.lock.data.get() }
    }
}
impl<T: ?Sized> DerefMut for MutexGuard<'_, T> {
    #[inline]
    fn deref_mut(&mut self) -> &mut T {
        unsafe { &mut *self.lock.data.get() }
    }
}
impl<T: ?Sized> Drop for MutexGuard<'_, T> {
    #[inline]
    fn drop(&mut self) {
        self.lock.raw.release_excl();
    }
}

/// Condition variable: waiting returns immediately (a spurious wake-up / timeout is always
/// allowed); condvars are outside every claim.
#[derive(Default)]
pub struct Condvar;
pub struct WaitTimeoutResult(bool);
impl WaitTimeoutResult {
    pub fn timed_out(&self) -> bool {
        self.0
    }
}
impl Condvar {
    pub const fn new() -> Self {
        Condvar
    }
    pub fn wait_for<T: ?Sized>(
        &self,
        _g: &mut MutexGuard<'_, T>,
        _d: core::time::Duration,
    ) -> WaitTimeoutResult {
        WaitTimeoutResult(true)
    }
    pub fn wait<T: ?Sized>(&self, _g: &mut MutexGuard<'_, T>) {}
    pub fn notify_all(&self) -> usize {
        0
    }
    pub fn notify_one(&self) -> bool {
        false
    }
}

// ==========================================================================================
// Arc / Weak model
// ==========================================================================================
pub const NARC: usize = 12;
pub const NCLASS: usize = 8;
/// One count table per *class* of pointee (class = size_of::<T>()/8 % NCLASS, a compile-time
/// constant per instantiation): a drop through a symbolic `Arc<RegionInner>` pointer is a
/// symbolic-index write into the RegionInner table only, so the `Arc<DatabaseInner>` count stays
/// concrete and `Database::drop`'s `strong_count == 1` test constant-folds (otherwise CBMC
/// explores `sync_bg_tasks` at every temporary `Database` drop).
pub struct ArcTable {
    pub strong: [[usize; NARC]; NCLASS],
    pub next: usize,
}
pub static mut ARCS: ArcTable = ArcTable { strong: [[0; NARC]; NCLASS], next: 0 };
#[inline]
fn arcs() -> &'static mut ArcTable {
    #[allow(static_mut_refs)]
    unsafe {
        &mut *core::ptr::addr_of_mut!(ARCS)
    }
}
#[inline(always)]
const fn class_of_size(n: usize) -> usize {
    (n / 8) % NCLASS
}

/// The strong count lives in a global table indexed by a per-allocation id, so that `clone` /
/// `drop` through a possibly symbolic `Arc` pointer only *read* through the pointer (the id) and
/// never write through it (a write through a symbolic pointer is a conditional update of every
/// candidate object; measured 20x formula blow-up).
#[repr(C)]
struct ArcInner<T> {
    id: usize,
    value: T,
}

pub struct Arc<T> {
    ptr: *const ArcInner<T>,
}
unsafe impl<T: Send + Sync> Send for Arc<T> {}
unsafe impl<T: Send + Sync> Sync for Arc<T> {}

impl<T> Arc<T> {
    pub fn new(value: T) -> Self {
        let t = arcs();
        let id = t.next;
        assert!(id < NARC, "VERIF: bound exceeded: too many Arc allocations");
        t.next = id + 1;
        t.strong[class_of_size(core::mem::size_of::<T>())][id] = 1;
        let b = Box::new(ArcInner { id, value });
        Self { ptr: Box::into_raw(b) }
    }
    #[inline]
    fn inner(&self) -> &ArcInner<T> {
        unsafe { &*self.ptr }
    }
    #[inline]
    pub fn strong_count(this: &Self) -> usize {
        arcs().strong[class_of_size(core::mem::size_of::<T>())][this.inner().id]
    }
    #[inline]
    pub fn ptr_eq(a: &Self, b: &Self) -> bool {
        core::ptr::eq(a.ptr, b.ptr)
    }
    #[inline]
    pub fn downgrade(this: &Self) -> Weak<T> {
        Weak { ptr: this.ptr }
    }
    #[inline]
    pub fn as_ptr(this: &Self) -> *const T {
        &this.inner().value as *const T
    }
    /// # Safety
    /// `p` came from `as_ptr`/`into_raw` of this model
    pub unsafe fn from_raw(p: *const T) -> Self {
        let off = core::mem::offset_of!(ArcInner<T>, value);
        Self { ptr: unsafe { (p as *const u8).sub(off) } as *const ArcInner<T> }
    }
    /// Model-only: set the strong count (harness state builders: "k extra handles exist").
    /// Model-only: table class of this pointee type.
    pub fn verif_class() -> usize {
        class_of_size(core::mem::size_of::<T>())
    }
    pub fn verif_set_strong(this: &Self, n: usize) {
        arcs().strong[class_of_size(core::mem::size_of::<T>())][this.inner().id] = n;
    }
}
impl<T> Clone for Arc<T> {
    #[inline]
    fn clone(&self) -> Self {
        let id = self.inner().id;
        arcs().strong[class_of_size(core::mem::size_of::<T>())][id] += 1;
        Self { ptr: self.ptr }
    }
}
impl<T> Drop for Arc<T> {
    #[inline]
    fn drop(&mut self) {
        // never torn down (leak): see module doc
        let id = self.inner().id;
        let t = &mut arcs().strong[class_of_size(core::mem::size_of::<T>())];
        if t[id] > 0 {
            t[id] -= 1;
            // opt-in teardown (lock-lifetime harness only): run the value's drop glue when the last
            // strong reference goes away; everywhere else the value is leaked, see module doc
            #[cfg(feature = "teardown")]
            if t[id] == 0 && unsafe { ARC_TEARDOWN } {
                unsafe { core::ptr::drop_in_place(&mut (*(self.ptr as *mut ArcInner<T>)).value) };
            }
        }
    }
}
#[allow(dead_code)]
static mut ARC_TEARDOWN: bool = false;
/// Harness switch: drop the pointee when the last strong reference is dropped (default: leak).
pub fn set_arc_teardown(on: bool) {
    unsafe { ARC_TEARDOWN = on };
}
impl<T> Deref for Arc<T> {
    type Target = T;
    #[inline]
    fn deref(&self) -> &T {
        &self.inner().value
    }
}
impl<T: fmt::Debug> fmt::Debug for Arc<T> {
    fn fmt(&self, _f: &mut fmt::Formatter<'_>) -> fmt::Result {
        Ok(())
    }
}

pub struct Weak<T> {
    ptr: *const ArcInner<T>,
}
unsafe impl<T: Send + Sync> Send for Weak<T> {}
unsafe impl<T: Send + Sync> Sync for Weak<T> {}
impl<T> Weak<T> {
    pub const fn new() -> Self {
        Self { ptr: core::ptr::null() }
    }
    #[inline]
    pub fn upgrade(&self) -> Option<Arc<T>> {
        if self.ptr.is_null() {
            return None;
        }
        let id = unsafe { &*self.ptr }.id;
        let t = &mut arcs().strong[class_of_size(core::mem::size_of::<T>())];
        if t[id] == 0 {
            return None;
        }
        t[id] += 1;
        Some(Arc { ptr: self.ptr })
    }
}
impl<T> Clone for Weak<T> {
    fn clone(&self) -> Self {
        Self { ptr: self.ptr }
    }
}
impl<T> Default for Weak<T> {
    fn default() -> Self {
        Self::new()
    }
}
impl<T> fmt::Debug for Weak<T> {
    fn fmt(&self, _f: &mut fmt::Formatter<'_>) -> fmt::Result {
        Ok(())
    }
}
