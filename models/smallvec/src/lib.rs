//! Fixed-capacity model of `smallvec::SmallVec` (Kani build only).
pub use anydb_verif_platform::collections::smallvec::{Array, SmallVec};
