//! Model of the subset of `memmap2` 0.9 used by rawdb/vecdb (Kani build only).
pub use anydb_verif_platform::mmap::{MmapMut, MmapOptions};
