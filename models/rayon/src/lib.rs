//! Sequential model of the one rayon API rawdb uses: `slice.par_iter()` = `slice.iter()`.
pub mod prelude {
    pub trait IntoParallelRefIterator<'a> {
        type Iter;
        fn par_iter(&'a self) -> Self::Iter;
    }
    impl<'a, T: 'a> IntoParallelRefIterator<'a> for Vec<T> {
        type Iter = core::slice::Iter<'a, T>;
        fn par_iter(&'a self) -> Self::Iter {
            self.iter()
        }
    }
    impl<'a, T: 'a> IntoParallelRefIterator<'a> for [T] {
        type Iter = core::slice::Iter<'a, T>;
        fn par_iter(&'a self) -> Self::Iter {
            self.iter()
        }
    }
}
