//! Sequential model of the subset of `parking_lot` 0.12 used by rawdb/vecdb (Kani build only).
pub use anydb_verif_platform::sync::{
    Condvar, Mutex, MutexGuard, RwLock, RwLockReadGuard, RwLockWriteGuard, lock_api,
};
