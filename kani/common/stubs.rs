//! Stubs shared by all harness modules (applied with #[kani::stub], -Z stubbing).
//! Each is listed in the evidence of every check that uses it.
#![allow(dead_code)]

/// `alloc::fmt::format`: error paths build their messages with `format!`; the text is never
/// part of a property.
pub fn format_stub(_args: core::fmt::Arguments<'_>) -> String {
    String::new()
}

/// Allocation bound for the allocation stubs below (elements).
pub const ALLOC_BOUND: usize = 4;

/// `<[T]>::to_vec`: symbolic-size allocation is the cost driver (DESIGN P3).  The stub asserts the
/// length bound (exceeding it is a reported failure, not an assumption) and copies into a vector
/// of concrete capacity.
pub fn to_vec_stub<T: Clone>(s: &[T]) -> Vec<T> {
    let n = s.len();
    assert!(n <= ALLOC_BOUND, "VERIF: bound exceeded: to_vec length");
    let mut v: Vec<T> = Vec::with_capacity(ALLOC_BOUND);
    let p = v.as_mut_ptr();
    let mut i = 0;
    while i < ALLOC_BOUND {
        if i < n {
            unsafe { p.add(i).write(s[i].clone()) };
        }
        i += 1;
    }
    unsafe { v.set_len(n) };
    v
}

pub fn with_capacity_stub<T>(n: usize) -> Vec<T> {
    // real behaviour first: a request above isize::MAX bytes panics with "capacity overflow"
    let sz = core::mem::size_of::<T>();
    if sz != 0 {
        match n.checked_mul(sz) {
            Some(b) if b <= isize::MAX as usize => {}
            _ => panic!("capacity overflow (Vec::with_capacity)"),
        }
    }
    assert!(n <= ALLOC_BOUND, "VERIF: bound exceeded: Vec::with_capacity");
    Vec::with_capacity_in(ALLOC_BOUND, std::alloc::Global)
}

pub fn reserve_stub<T, A: std::alloc::Allocator>(v: &mut Vec<T, A>, additional: usize) {
    let sz = core::mem::size_of::<T>();
    if sz != 0 {
        match v.len().checked_add(additional).and_then(|n| n.checked_mul(sz)) {
            Some(b) if b <= isize::MAX as usize => {}
            _ => panic!("capacity overflow (Vec::reserve)"),
        }
    }
    assert!(v.len() + additional <= ALLOC_BOUND, "VERIF: bound exceeded: Vec::reserve");
    if v.capacity() < ALLOC_BOUND {
        v.reserve_exact(ALLOC_BOUND - v.len());
    }
}

/// `<[u8]>::to_vec` for long inputs whose *content* is irrelevant (name-length limit harness):
/// returns an empty vector with the length recorded nowhere - only used together with
/// `from_utf8_trust_stub`.
pub fn to_vec_len_only_stub<T: Clone>(_s: &[T]) -> Vec<T> {
    Vec::new()
}
/// `String::from_utf8` that trusts its input (ASCII by construction in the harness).
pub fn from_utf8_trust_stub(_v: Vec<u8>) -> Result<String, std::string::FromUtf8Error> {
    Ok(String::new())
}

/// `<[T]>::to_vec` with bound 8 (names like "v/usize").
pub fn to_vec_stub8<T: Clone>(s: &[T]) -> Vec<T> {
    let n = s.len();
    assert!(n <= 8, "VERIF: bound exceeded: to_vec length");
    let mut v: Vec<T> = Vec::with_capacity_in(8, std::alloc::Global);
    let p = v.as_mut_ptr();
    let mut i = 0;
    while i < 8 {
        if i < n {
            unsafe { p.add(i).write(s[i].clone()) };
        }
        i += 1;
    }
    unsafe { v.set_len(n) };
    v
}

/// Allocation stubs with bound 128 (byte buffers: page index, change records).
pub fn with_capacity_stub64<T>(n: usize) -> Vec<T> {
    let sz = core::mem::size_of::<T>();
    if sz != 0 {
        match n.checked_mul(sz) {
            Some(b) if b <= isize::MAX as usize => {}
            _ => panic!("capacity overflow (Vec::with_capacity)"),
        }
    }
    assert!(n <= 128, "VERIF: bound exceeded: Vec::with_capacity");
    Vec::with_capacity_in(128, std::alloc::Global)
}
pub fn reserve_stub64<T, A: std::alloc::Allocator>(v: &mut Vec<T, A>, additional: usize) {
    assert!(v.len() + additional <= 128, "VERIF: bound exceeded: Vec::reserve");
    if v.capacity() < 128 {
        v.reserve_exact(128 - v.len());
    }
}
