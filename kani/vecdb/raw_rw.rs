//! Contract-mode harnesses for the raw formats (mounted as a child of
//! variants::raw::inner::read_write: private fields visible).  The vector is built directly in an
//! arbitrary valid overlay state over a tiny real data file (rawdb in contract mode: one region at
//! offset 0, allocator cut); the reference contents are computed by the harness from the fields.
#![allow(dead_code)]
use super::*;
use crate::base::verif_base::{mk_base, vec4, with_prev};
use crate::verif_root::mock::Out;
use crate::verif_root::stubs;
use crate::{AnyStoredVec, AnyVec, BytesStrategy, Format, ReadableVec, WritableVec};

pub(crate) const NEL: usize = 4; // element slots in the file
pub(crate) const CAPB: usize = HEADER_OFFSET + NEL * 4;
type V = ReadWriteRawVec<usize, u32, BytesStrategy<u32>>;

pub(crate) struct RawWorld {
    pub v: V,
    pub buf: Box<[u8; CAPB]>,
    pub disk: [u32; NEL],
    pub real_n: usize,
}

/// Arbitrary valid state. `max_holes`/`max_upd` bound the overlay sizes; `expanded` allows the
/// post-rollback state stored_len > on-disk length (missing values in `updated`).
pub(crate) fn raw_world(max_pushed: usize, max_holes: usize, max_upd: usize, expanded: bool) -> RawWorld {
    raw_world_d(max_pushed, max_holes, max_upd, expanded, false)
}

/// `force_dirty`: the first deleted slot is present unconditionally, so `has_dirty_stored()` is a
/// constant and only the overlay-merging read path is encoded.
pub(crate) fn raw_world_d(max_pushed: usize, max_holes: usize, max_upd: usize, expanded: bool, force_dirty: bool) -> RawWorld {
    let mut buf: Box<[u8; CAPB]> = Box::new(kani::any());
    let real_n: usize = kani::any();
    kani::assume(real_n <= 3);
    let mut disk = [0u32; NEL];
    let mut i = 0;
    while i < NEL {
        let o = HEADER_OFFSET + 4 * i;
        disk[i] = u32::from_le_bytes([buf[o], buf[o + 1], buf[o + 2], buf[o + 3]]);
        i += 1;
    }
    let (_db, region) = rawdb::verif_root::api_contract_db(buf.as_mut_ptr(), CAPB, HEADER_OFFSET + 4 * real_n);
    core::mem::forget(_db);
    let stored_len: usize = kani::any();
    if expanded {
        kani::assume(stored_len <= 3);
    } else {
        kani::assume(stored_len <= real_n);
    }
    let np: usize = kani::any();
    kani::assume(np <= max_pushed && np <= 2);
    let pv: [u32; 4] = kani::any();
    let len = stored_len + np;
    let header = crate::base::verif_header::mk_header(kani::any(), kani::any(), kani::any(), Format::Bytes);
    let base = mk_base::<usize, u32>(region, header, stored_len, vec4(&pv, np), Vec::new(), stored_len, 0);
    let mut holes = BTreeSet::new();
    let mut updated = BTreeMap::new();
    // updated: keys < stored_len; in the expanded state every index in [real_n, stored_len) is there
    let mut u = 0;
    while u < 2 {
        if u < max_upd {
            let present = kani::any::<bool>();
            let k: usize = kani::any();
            let val: u32 = kani::any();
            if present {
                kani::assume(k < stored_len);
                updated.insert(k, val);
            }
        }
        u += 1;
    }
    if expanded {
        let mut i = 0;
        while i < NEL {
            if i >= real_n && i < stored_len {
                kani::assume(updated.contains_key(&i));
            }
            i += 1;
        }
    }
    let mut h = 0;
    while h < 2 {
        if h < max_holes {
            let present = if force_dirty && h == 0 { true } else { kani::any::<bool>() };
            let k: usize = kani::any();
            if present {
                // a deleted slot is never also in `updated` (delete removes it, update un-deletes)
                kani::assume(k < len && !updated.contains_key(&k));
                holes.insert(k);
            }
        }
        h += 1;
    }
    let v = ReadWriteRawVec {
        base,
        holes: with_prev(holes, BTreeSet::new()),
        updated: with_prev(updated, BTreeMap::new()),
        has_stored_holes: false,
        _strategy: PhantomData,
    };
    RawWorld { v, buf, disk, real_n }
}

/// reference contents (the model of C03): None = deleted
pub(crate) fn alpha(w: &RawWorld, i: usize) -> Option<u32> {
    let sl = w.v.stored_len();
    if w.v.holes().contains(&i) {
        None
    } else if i >= sl {
        w.v.pushed().get(i - sl).copied()
    } else if let Some(x) = w.v.updated().get(&i) {
        Some(*x)
    } else {
        Some(w.disk[i])
    }
}

fn any_range() -> (usize, usize) {
    let from: usize = kani::any();
    let to: usize = kani::any();
    kani::assume(from <= 6 || from == usize::MAX);
    kani::assume(to <= 6 || to == usize::MAX);
    (from, to)
}

/// C08: every read path of the read-write raw vector agrees with the reference on every range
#[kani::proof]
#[kani::unwind(7)]
#[kani::stub(alloc::fmt::format, stubs::format_stub)]
#[kani::stub(rawdb::Database::sync_bg_tasks, rawdb::verif_root::sync_bg_tasks_stub)]
#[kani::stub(std::vec::Vec::<T>::with_capacity, stubs::with_capacity_stub)]
#[kani::stub(std::vec::Vec::<T>::reserve, stubs::reserve_stub)]
fn c08_raw_point_reads() {
    let w = raw_world(2, 1, 1, false);
    let len = w.v.len();
    let k: usize = kani::any();
    kani::assume(k <= 6);
    let want = if k < len { alpha(&w, k) } else { None };
    // index-addressed reads: the element of that index, or nothing if it is deleted / out of range
    assert!(w.v.collect_one_at(k) == want);
    if k < len {
        let r = w.v.create_reader();
        let g = w.v.get_any_or_read_at(k, &r);
        assert!(matches!(&g, Ok(x) if *x == want));
        core::mem::forget((g, r));
    }
    kani::cover!(k < len && want.is_none(), "deleted slot");
    kani::cover!(k < len && k >= w.v.stored_len() && want.is_none(), "deleted slot in the pushed tail");
    kani::cover!(k < w.v.stored_len() && w.v.updated().contains_key(&k), "updated slot");
    core::mem::forget(w);
}

fn range_body(w: &RawWorld) {
    let len = w.v.len();
    let (from, to) = any_range();
    // reference: non-deleted elements of [from, min(to,len)) in index order
    let mut want = Out::<u32>::new();
    let mut i = 0;
    while i < 6 {
        if i >= from && i < to && i < len {
            if let Some(x) = alpha(w, i) {
                want.push(x);
            }
        }
        i += 1;
    }
    let j: usize = kani::any();
    kani::assume(j < 6);
    let got = w.v.fold_range_at(from, to, Out::<u32>::new(), |mut o, x| {
        o.push(x);
        o
    });
    assert!(got.n == want.n);
    if j < want.n {
        assert!(got.v[j] == want.v[j]);
    }
    let tf: core::result::Result<Out<u32>, ()> = w.v.try_fold_range_at(from, to, Out::new(), |mut o, x| {
        o.push(x);
        Ok(o)
    });
    let tf = tf.unwrap();
    assert!(tf.n == want.n);
    if j < want.n {
        assert!(tf.v[j] == want.v[j]);
    }
    kani::cover!(want.n == 3 && from > 0, "three elements from the middle");
    kani::cover!(from < w.v.stored_len() && to > w.v.stored_len() && want.n >= 2, "range straddles stored/pushed");
}

macro_rules! raw_harness {
    ($name:ident, $body:block) => {
        #[kani::proof]
        #[kani::unwind(7)]
        #[kani::stub(alloc::fmt::format, stubs::format_stub)]
        #[kani::stub(rawdb::Database::sync_bg_tasks, rawdb::verif_root::sync_bg_tasks_stub)]
        #[kani::stub(std::vec::Vec::<T>::with_capacity, stubs::with_capacity_stub)]
        #[kani::stub(std::vec::Vec::<T>::reserve, stubs::reserve_stub)]
        #[kani::stub(rawdb::Region::open_db_read_only_file, rawdb::verif_root::open_ro_cut)]
        fn $name() $body
    };
}

raw_harness!(c08_raw_range_clean, {
    let w = raw_world(2, 0, 0, false);
    range_body(&w);
    core::mem::forget(w);
});
raw_harness!(c08_raw_range_dirty, {
    let w = raw_world_d(1, 1, 1, false, true);
    range_body(&w);
    kani::cover!(w.v.updated().len() == 1, "with an updated slot");
    core::mem::forget(w);
});

// ---------------------------------------------------------------------------------------------
// C03: in-memory editing operations = reference model, one step from an arbitrary valid state
fn snapshot(w: &RawWorld) -> ([Option<u32>; 6], usize) {
    let mut a = [None; 6];
    let len = w.v.len();
    let mut i = 0;
    while i < 6 {
        if i < len {
            a[i] = alpha(w, i);
        }
        i += 1;
    }
    (a, len)
}

raw_harness!(c03_raw_edit_step, {
    let mut w = raw_world(2, 1, 2, false);
    let (before, len) = snapshot(&w);
    let stamp0 = w.v.stamp();
    let op: u8 = kani::any();
    kani::assume(op <= 3);
    let idx: usize = kani::any();
    kani::assume(idx <= 5);
    let val: u32 = kani::any();
    let k: usize = kani::any();
    kani::assume(k < 6);
    match op {
        0 => {
            // truncate_if_needed_at(idx): keeps exactly the first idx elements (no-op beyond len)
            let r = w.v.truncate_if_needed_at(idx);
            assert!(r.is_ok());
            let new_len = if idx < len { idx } else { len };
            assert!(w.v.len() == new_len);
            if k < new_len {
                assert!(alpha(&w, k) == before[k]);
            }
            // nothing deleted or updated survives at or beyond the cut
            assert!(w.v.holes().range(new_len..).next().is_none());
            if idx < len {
                assert!(w.v.updated().range(idx..).next().is_none());
            }
            kani::cover!(idx < len && before[idx].is_some() && w.v.stored_len() == idx, "cut inside the stored part");
            core::mem::forget(r);
        }
        1 => {
            // update_at(idx, val): element idx becomes val (un-deleting it), others unchanged
            let r = w.v.update_at(idx, val);
            if idx < len {
                assert!(r.is_ok());
                assert!(w.v.len() == len);
                assert!(alpha(&w, k) == if k == idx { Some(val) } else { before[k] } || k >= len);
            } else {
                // refused: no effect (C13)
                assert!(r.is_err());
                assert!(w.v.len() == len);
                if k < len {
                    assert!(alpha(&w, k) == before[k]);
                }
            }
            core::mem::forget(r);
        }
        2 => {
            // delete_at(idx)
            w.v.delete_at(idx);
            assert!(w.v.len() == len);
            if k < len {
                assert!(alpha(&w, k) == if k == idx { None } else { before[k] });
            }
            kani::cover!(idx < len && idx >= w.v.stored_len(), "delete in the pushed tail");
        }
        _ => {
            // push(val)
            kani::assume(w.v.pushed().len() < 2);
            w.v.push(val);
            assert!(w.v.len() == len + 1);
            assert!(alpha(&w, k) == if k == len { Some(val) } else if k < len { before[k] } else { None } || k > len);
        }
    }
    assert!(w.v.stamp() == stamp0);
    // invariant: a slot is never both deleted and updated; holes below len
    let mut i = 0;
    while i < 6 {
        assert!(!(w.v.holes().contains(&i) && w.v.updated().contains_key(&i)));
        i += 1;
    }
    core::mem::forget(w);
});

// ---------------------------------------------------------------------------------------------
// C03/C09: write() persists exactly the reference contents, publishes the length last
raw_harness!(c03_raw_write_step, {
    let mut w = raw_world(2, 0, 1, false);
    let (before, len) = snapshot(&w);
    kani::assume(len <= NEL);
    let k: usize = kani::any();
    kani::assume(k < NEL);
    let r = w.v.write();
    assert!(r.is_ok());
    assert!(w.v.len() == len && w.v.stored_len() == len && w.v.pushed().is_empty() && w.v.updated().is_empty());
    assert!(w.v.region().meta().len() == HEADER_OFFSET + 4 * len);
    if k < len {
        let o = HEADER_OFFSET + 4 * k;
        let on_disk = u32::from_le_bytes([w.buf[o], w.buf[o + 1], w.buf[o + 2], w.buf[o + 3]]);
        assert!(Some(on_disk) == before[k]);
        assert!(w.v.collect_one_at(k) == before[k]);
    }
    kani::cover!(w.real_n > len, "truncating write");
    kani::cover!(len == 4, "two elements appended to two stored");
    core::mem::forget((r, w));
});

// ---------------------------------------------------------------------------------------------
// C20: reads in the post-rollback state (logical length above what is on disk), pointer checks on
#[kani::proof]
#[kani::unwind(7)]
#[kani::stub(alloc::fmt::format, stubs::format_stub)]
#[kani::stub(rawdb::Database::sync_bg_tasks, rawdb::verif_root::sync_bg_tasks_stub)]
#[kani::stub(std::vec::Vec::<T>::with_capacity, stubs::with_capacity_stub)]
#[kani::stub(std::vec::Vec::<T>::reserve, stubs::reserve_stub)]
#[kani::stub(rawdb::Region::open_db_read_only_file, rawdb::verif_root::open_ro_cut)]
fn c20_raw_rw_reads_expanded() {
    let w = raw_world(1, 0, 2, true);
    let len = w.v.len();
    let k: usize = kani::any();
    kani::assume(k <= 5);
    // ghost bound: every element fetched from the map lies below the region's current length
    let region_elems = (w.v.region().meta().len() - HEADER_OFFSET) / 4;
    let got = w.v.collect_one_at(k);
    if k < len {
        assert!(got == alpha(&w, k));
        if k >= region_elems && k < w.v.stored_len() {
            // served from the overlay, not from bytes past the region's length
            assert!(w.v.updated().contains_key(&k));
        }
    }
    kani::cover!(w.v.stored_len() > region_elems && k >= region_elems && k < w.v.stored_len(), "index beyond the on-disk length");
    core::mem::forget(w);
}

#[kani::proof]
#[kani::unwind(7)]
#[kani::stub(alloc::fmt::format, stubs::format_stub)]
#[kani::stub(rawdb::Database::sync_bg_tasks, rawdb::verif_root::sync_bg_tasks_stub)]
#[kani::stub(std::vec::Vec::<T>::with_capacity, stubs::with_capacity_stub)]
#[kani::stub(std::vec::Vec::<T>::reserve, stubs::reserve_stub)]
#[kani::stub(rawdb::Region::open_db_read_only_file, rawdb::verif_root::open_ro_cut)]
fn c20_raw_ro_clone_reads_expanded() {
    // read-only clone observing the same (shared) logical length
    let w = raw_world(0, 0, 2, true);
    let ro = w.v.read_only_clone();
    let k: usize = kani::any();
    kani::assume(k <= 5);
    let region_elems = (w.v.region().meta().len() - HEADER_OFFSET) / 4;
    let got = ro.collect_one_at(k);
    // every index it serves must be backed by region bytes
    assert!(got.is_none() || k < region_elems, "read-only clone served an index beyond the region's length");
    kani::cover!(w.v.stored_len() > region_elems, "logical length above the on-disk length");
    core::mem::forget((ro, w));
}

// ---------------------------------------------------------------------------------------------
// C08: cursor / sorted reads on a vector with a deleted slot (index-addressed: element or nothing)
raw_harness!(c08_raw_cursor_deleted_slot, {
    let w = raw_world_d(0, 1, 0, false, true);
    let len = w.v.len();
    kani::assume(len >= 2);
    let k: usize = kani::any();
    kani::assume(k < len);
    let want = alpha(&w, k);
    let got = {
        let mut c = w.v.cursor();
        let g = c.get(k);
        core::mem::forget(c);
        g
    };
    // an index-addressed read returns the element of that index or nothing if it is deleted
    assert!(got == want || got.is_none());
    kani::cover!(true, "cursor read completed");
    core::mem::forget(w);
});

// ---------------------------------------------------------------------------------------------
// C14: import keeps matching data; discards only on a real version/format mismatch
/// `vec_region_name` builds "name/index" with format! (stubbed to an empty string for error
/// messages); the import harness needs the real name of its one region.
pub(crate) fn c14_region_name(_name: &str, _index: &str) -> String {
    String::from("v/usize")
}
/// One import of the single region "v/usize" (length `region_len`, concrete per harness; header fields and
/// payload bytes symbolic) through the plain or the forced entry point.
fn c14_body(forced: bool, region_len: usize) {
    let mut buf: Box<[u8; CAPB]> = Box::new(kani::any());
    // stored header (if the region is long enough to have one)
    let stored_hv: u32 = kani::any();
    let stored_vv: u32 = kani::any();
    let stored_fmt: u8 = kani::any();
    kani::assume(stored_vv < 1000);
    buf[0..4].copy_from_slice(&stored_hv.to_le_bytes());
    buf[4..8].copy_from_slice(&stored_vv.to_le_bytes());
    buf[20] = stored_fmt;
    let (db, _r) = rawdb::verif_root::api_contract_db_named(buf.as_mut_ptr(), CAPB, region_len, "v/usize");
    let req: u32 = kani::any();
    kani::assume(req < 1000);
    rawdb::verif_root::ghost_clear();
    let opts = ImportOptions::new(&db, "v", Version::new(req));
    let res = if forced { V::forced_import_with(opts, Format::Bytes) } else { V::import_with(opts, Format::Bytes) };
    let removals = rawdb::verif_root::ghost_removals();
    let has_header = region_len >= HEADER_OFFSET;
    let aligned = region_len <= HEADER_OFFSET || (region_len - HEADER_OFFSET) % 4 == 0;
    // "matching": what a plain import with the same user-level version stored (layer VERSION = 1)
    let stored_matches = has_header && stored_hv == 2 && stored_vv == req + 1 && stored_fmt == 0;
    if !forced {
        // plain import never discards anything
        assert!(removals == 0, "plain import discarded data");
        match &res {
            Ok(v) => {
                assert!(region_len == 0 || (stored_matches && aligned), "plain import accepted a mismatching or damaged vector");
                if region_len > 0 {
                    assert!(v.len() == (region_len - HEADER_OFFSET) / 4, "import returned another length than stored");
                    assert!(rawdb::verif_root::ghost_writes() == 0, "import of an existing vector wrote to its region");
                }
            }
            Err(_) => {
                assert!(region_len > 0 && !(stored_matches && aligned), "plain import refused a matching vector");
                assert!(rawdb::verif_root::ghost_writes() == 0, "refused import wrote to the region");
            }
        }
    } else {
        // forced import: matching data is kept, never discarded
        if region_len == 0 || (stored_matches && aligned) {
            assert!(removals == 0, "forced import discarded a vector whose version and format match");
        }
        // a misaligned payload behind a matching header is corruption, not a version change
        if stored_matches && !aligned {
            assert!(removals == 0 && res.is_err(), "forced import discarded a vector whose version and format match");
        }
        // what the forced entry point itself stores (it adds the layer VERSION twice): kept and returned
        let stored_by_forced = has_header && stored_hv == 2 && stored_vv == req + 2 && stored_fmt == 0;
        if stored_by_forced {
            assert!(removals == 0, "forced import discarded a vector it created itself with the same arguments");
            if aligned {
                match &res {
                    Ok(v) => assert!(v.len() == (region_len - HEADER_OFFSET) / 4, "import returned another length than stored"),
                    Err(_) => panic!("forced import refused a vector it created itself with the same arguments"),
                }
            } else {
                assert!(res.is_err(), "forced import accepted a misaligned payload");
            }
        }
        assert!(removals <= 1);
    }
    kani::cover!(true, "import returned");
    core::mem::forget((res, db, buf));
}
macro_rules! c14_case {
    ($name:ident, $forced:expr, $len:expr) => {
        #[kani::proof]
        #[kani::unwind(10)]
        #[kani::stub(alloc::fmt::format, stubs::format_stub)]
        #[kani::stub(rawdb::Database::sync_bg_tasks, rawdb::verif_root::sync_bg_tasks_stub)]
        #[kani::stub(rawdb::Database::remove_region_if_exists, rawdb::verif_root::remove_region_if_exists_stub)]
        #[kani::stub(std::vec::Vec::<T>::with_capacity, stubs::with_capacity_stub)]
        #[kani::stub(std::vec::Vec::<T>::reserve, stubs::reserve_stub)]
        #[kani::stub(<[u8]>::to_vec, stubs::to_vec_stub8)]
        #[kani::stub(crate::base::read_write::vec_region_name, c14_region_name)]
        #[kani::stub(rawdb::Database::create_region_if_needed, rawdb::verif_root::create_region_if_needed_stub)]
        #[kani::stub(rawdb::Database::get_region, rawdb::verif_root::get_region_none_stub)]
        fn $name() {
            c14_body($forced, $len);
        }
    };
}
c14_case!(c14_import_plain_len0, false, 0);
c14_case!(c14_import_plain_len20, false, 20);
c14_case!(c14_import_plain_len32, false, HEADER_OFFSET);
c14_case!(c14_import_plain_len38, false, HEADER_OFFSET + 6);
c14_case!(c14_import_plain_len40, false, HEADER_OFFSET + 8);
c14_case!(c14_import_forced_len0, true, 0);
c14_case!(c14_import_forced_len20, true, 20);
c14_case!(c14_import_forced_len32, true, HEADER_OFFSET);
c14_case!(c14_import_forced_len38, true, HEADER_OFFSET + 6);
c14_case!(c14_import_forced_len40, true, HEADER_OFFSET + 8);

// ---------------------------------------------------------------------------------------------
// Concrete-shape worlds (all container lengths concrete; values, indices of overlay entries and the
// file bytes symbolic): what makes `write()` and the rollback round trip tractable.
pub(crate) fn raw_world_c(real_n: usize, stored_len: usize, np: usize, nupd: usize) -> RawWorld {
    assert!(real_n <= 3 && np <= 2 && nupd <= 2 && stored_len + np <= NEL);
    let mut buf: Box<[u8; CAPB]> = Box::new(kani::any());
    let mut disk = [0u32; NEL];
    let mut i = 0;
    while i < NEL {
        let o = HEADER_OFFSET + 4 * i;
        disk[i] = u32::from_le_bytes([buf[o], buf[o + 1], buf[o + 2], buf[o + 3]]);
        i += 1;
    }
    let (_db, region) = rawdb::verif_root::api_contract_db(buf.as_mut_ptr(), CAPB, HEADER_OFFSET + 4 * real_n);
    core::mem::forget(_db);
    let pv: [u32; 4] = kani::any();
    let header = crate::base::verif_header::mk_header(kani::any(), kani::any(), kani::any(), Format::Bytes);
    let base = mk_base::<usize, u32>(region, header, stored_len, vec4(&pv, np), Vec::new(), stored_len, 1);
    let mut updated = BTreeMap::new();
    let mut u = 0;
    while u < nupd {
        let k: usize = kani::any();
        let val: u32 = kani::any();
        kani::assume(k < stored_len && !updated.contains_key(&k));
        updated.insert(k, val);
        u += 1;
    }
    // expanded state: every index beyond the on-disk length must be in the overlay
    let mut i = 0;
    while i < NEL {
        if i >= real_n && i < stored_len {
            kani::assume(updated.contains_key(&i));
        }
        i += 1;
    }
    let v = ReadWriteRawVec {
        base,
        holes: with_prev(BTreeSet::new(), BTreeSet::new()),
        updated: with_prev(updated, BTreeMap::new()),
        has_stored_holes: false,
        _strategy: PhantomData,
    };
    RawWorld { v, buf, disk, real_n }
}

fn write_body(real_n: usize, stored_len: usize, np: usize, nupd: usize) {
    let mut w = raw_world_c(real_n, stored_len, np, nupd);
    let (before, len) = snapshot(&w);
    let k: usize = kani::any();
    kani::assume(k < NEL);
    rawdb::verif_root::ghost_clear();
    let r = w.v.write();
    assert!(r.is_ok());
    assert!(w.v.len() == len && w.v.stored_len() == len && w.v.pushed().is_empty() && w.v.updated().is_empty());
    assert!(w.v.region().meta().len() == HEADER_OFFSET + 4 * len, "region length differs from header + 4 * len");
    if k < len {
        let o = HEADER_OFFSET + 4 * k;
        let on_disk = u32::from_le_bytes([w.buf[o], w.buf[o + 1], w.buf[o + 2], w.buf[o + 3]]);
        assert!(Some(on_disk) == before[k], "element on disk differs from the reference");
        assert!(w.v.collect_one_at(k) == before[k]);
    }
    kani::cover!(true, "write completed");
    core::mem::forget((r, w));
}

macro_rules! raw_c {
    ($body:ident; $( $name:ident = ($($a:expr),*); )*) => {
        $(
            #[kani::proof]
            #[kani::unwind(10)]
            #[kani::stub(alloc::fmt::format, stubs::format_stub)]
            #[kani::stub(rawdb::Database::sync_bg_tasks, rawdb::verif_root::sync_bg_tasks_stub)]
            #[kani::stub(<[u8]>::to_vec, stubs::to_vec_stub)]
            #[kani::stub(rawdb::Region::open_db_read_only_file, rawdb::verif_root::open_ro_cut)]
            #[kani::stub(std::vec::Vec::<T>::with_capacity, stubs::with_capacity_stub64)]
            #[kani::stub(std::vec::Vec::<T>::reserve, stubs::reserve_stub64)]
            fn $name() {
                $body($($a),*);
            }
        )*
    };
}
// (elements on disk, logical stored length, pushed, updated)
raw_c! { write_body;
    c03_raw_write_append = (2, 2, 2, 0);
    c03_raw_write_trunc_only = (3, 1, 0, 0);
    c03_raw_write_truncate_append = (3, 1, 1, 0);
    c03_raw_write_update = (2, 2, 0, 1);
    c03_raw_write_update_append = (2, 2, 1, 2);
    c03_raw_write_expanded = (1, 3, 0, 2);
    c03_raw_write_noop = (2, 2, 0, 0);
}


// ---------------------------------------------------------------------------------------------
// C04: commit + rollback round trip.  From a clean committed state S (s stored elements, stamp t0),
// one edit, then the commit sequence of stamped_write_with_changes (serialize_changes -> write with
// the new stamp -> re-base) without the change-file I/O, then deserialize_then_undo_changes on the
// serialized record: contents, length and stamp are exactly those of S, and the baseline is S again.
fn commit_undo_body(s: usize, edit: u8) {
    let mut w = raw_world_c(s, s, 0, 0);
    let (before, len0) = snapshot(&w);
    let stamp0 = w.v.stamp();
    assert!(len0 == s);
    // baseline describes S (as after import / a previous commit)
    // --- one uncommitted edit ---
    let val: u32 = kani::any();
    let idx: usize = kani::any();
    match edit {
        0 => w.v.push(val),
        1 => {
            kani::assume(idx < s);
            let r = w.v.truncate_if_needed_at(idx);
            assert!(r.is_ok());
            core::mem::forget(r);
        }
        _ => {
            kani::assume(idx < s);
            let r = w.v.update_at(idx, val);
            assert!(r.is_ok());
            core::mem::forget(r);
        }
    }
    let (edited, len1) = snapshot(&w);
    // --- commit (what stamped_write_with_changes does, minus save_change_file) ---
    let data = w.v.serialize_changes();
    assert!(data.is_ok());
    let data = data.unwrap();
    let new_stamp: u64 = kani::any();
    kani::assume(crate::Stamp::new(new_stamp) != stamp0);
    let r = w.v.stamped_write(crate::Stamp::new(new_stamp));
    assert!(r.is_ok());
    w.v.base.save_prev();
    w.v.holes.save();
    w.v.updated.clear_previous();
    // the committed state reads as the edited one
    let k: usize = kani::any();
    kani::assume(k < 6);
    assert!(w.v.len() == len1);
    if k < len1 {
        assert!(alpha(&w, k) == edited[k]);
    }
    // --- rollback ---
    let u = w.v.deserialize_then_undo_changes(&data);
    assert!(u.is_ok());
    assert!(w.v.len() == len0, "length after rollback differs from the previously committed length");
    assert!(w.v.stamp() == stamp0, "stamp after rollback differs from the previously committed stamp");
    if k < len0 {
        assert!(alpha(&w, k) == before[k], "element after rollback differs from the previously committed one");
    }
    kani::cover!(true, "commit and rollback completed");
    core::mem::forget((u, r, data, w));
}
raw_c! { commit_undo_body;
    c04_raw_commit_undo_push = (2, 0);
    c04_raw_commit_undo_truncate = (3, 1);
    c04_raw_commit_undo_update = (2, 2);
    c04_raw_commit_undo_push_empty = (0, 0);
}
