//! Storage model: a `StoredVec` that is exactly the reference model of C03 (stored prefix +
//! pushed tail; `write` moves one to the other; a real `Header`).  EagerVec's generic code
//! (compute_*, validate_computed_version_or_reset, repeat_until_complete) runs over it unchanged.
use std::{collections::BTreeMap, path::PathBuf};

use rawdb::{Database, Region};

use crate::{
    AnyStoredVec, AnyVec, Format, Header, ImportOptions, ImportableVec, ReadableVec, Result, Stamp,
    StoredVec, TypedVec, Version, WritableVec,
};

pub const SN: usize = 4;

pub struct ModelVec {
    pub stored: [u64; SN],
    pub stored_len: usize,
    pub pushed: [u64; SN],
    pub pushed_len: usize,
    pub header: Header,
    /// ghost: computed_version as last persisted by write() (header written when modified)
    pub persisted_cv: u32,
    pub writes: usize,
    pub resets: usize,
    pub region: Region,
}

impl ModelVec {
    pub fn new(vec_version: u32, computed_version: u32) -> Self {
        Self {
            stored: [0; SN],
            stored_len: 0,
            pushed: [0; SN],
            pushed_len: 0,
            header: crate::base::verif_header::mk_header(vec_version, computed_version, 0, Format::Bytes),
            persisted_cv: computed_version,
            writes: 0,
            resets: 0,
            region: rawdb::verif_root::api_detached_region(),
        }
    }
    pub fn at(&self, i: usize) -> u64 {
        if i < self.stored_len { self.stored[i] } else { self.pushed[i - self.stored_len] }
    }
    pub fn set_at(&mut self, i: usize, v: u64) {
        if i < self.stored_len { self.stored[i] = v } else { self.pushed[i - self.stored_len] = v }
    }
}

impl Clone for ModelVec {
    fn clone(&self) -> Self {
        unreachable!()
    }
}

impl AnyVec for ModelVec {
    fn version(&self) -> Version {
        self.header.vec_version()
    }
    fn name(&self) -> &str {
        "m"
    }
    fn len(&self) -> usize {
        self.stored_len + self.pushed_len
    }
    fn index_type_to_string(&self) -> &'static str {
        "usize"
    }
    fn region_names(&self) -> Vec<String> {
        Vec::new()
    }
    fn value_type_to_size_of(&self) -> usize {
        8
    }
    fn value_type_to_string(&self) -> &'static str {
        "u64"
    }
}
impl TypedVec for ModelVec {
    type I = usize;
    type T = u64;
}
impl ImportableVec for ModelVec {
    fn import(_: &Database, _: &str, _: Version) -> Result<Self> {
        unreachable!()
    }
    fn import_with(_: ImportOptions) -> Result<Self> {
        unreachable!()
    }
    fn forced_import(_: &Database, _: &str, _: Version) -> Result<Self> {
        unreachable!()
    }
    fn forced_import_with(_: ImportOptions) -> Result<Self> {
        unreachable!()
    }
}
impl AnyStoredVec for ModelVec {
    fn db_path(&self) -> PathBuf {
        PathBuf::new()
    }
    fn region(&self) -> &Region {
        &self.region
    }
    fn header(&self) -> &Header {
        &self.header
    }
    fn mut_header(&mut self) -> &mut Header {
        &mut self.header
    }
    fn saved_stamped_changes(&self) -> u16 {
        0
    }
    fn write(&mut self) -> Result<bool> {
        // as the real formats: header first (write_header_if_needed), then the pushed tail
        if self.header.modified() {
            self.persisted_cv = u32::from(self.header.computed_version());
            crate::base::verif_header::clear_modified(&mut self.header);
        }
        self.writes += 1;
        let n = self.pushed_len;
        assert!(self.stored_len + n <= SN, "VERIF: bound exceeded: model storage");
        let mut i = 0;
        while i < SN {
            if i < n {
                self.stored[self.stored_len + i] = self.pushed[i];
            }
            i += 1;
        }
        self.stored_len += n;
        self.pushed_len = 0;
        Ok(n > 0)
    }
    fn db(&self) -> Database {
        unreachable!()
    }
    fn real_stored_len(&self) -> usize {
        self.stored_len
    }
    fn stored_len(&self) -> usize {
        self.stored_len
    }
    fn any_stamped_write_with_changes(&mut self, _: Stamp) -> Result<()> {
        unreachable!()
    }
    fn serialize_changes(&self) -> Result<Vec<u8>> {
        unreachable!()
    }
    fn remove(self) -> Result<()> {
        unreachable!()
    }
    fn any_truncate_if_needed_at(&mut self, index: usize) -> Result<()> {
        self.truncate_if_needed_at(index)
    }
    fn any_reset(&mut self) -> Result<()> {
        self.reset()
    }
}
impl WritableVec<usize, u64> for ModelVec {
    fn push(&mut self, value: u64) {
        assert!(self.pushed_len < SN, "VERIF: bound exceeded: model pushed buffer");
        self.pushed[self.pushed_len] = value;
        self.pushed_len += 1;
    }
    fn pushed(&self) -> &[u64] {
        &self.pushed[..self.pushed_len]
    }
    fn truncate_if_needed_at(&mut self, index: usize) -> Result<()> {
        if index < self.stored_len {
            self.stored_len = index;
            self.pushed_len = 0;
        } else if index < self.stored_len + self.pushed_len {
            self.pushed_len = index - self.stored_len;
        }
        Ok(())
    }
    fn reset(&mut self) -> Result<()> {
        // the real reset() keeps computed_version and resets the stamp
        self.stored_len = 0;
        self.pushed_len = 0;
        self.resets += 1;
        self.header.update_stamp(Stamp::default());
        Ok(())
    }
    fn reset_unsaved(&mut self) {
        self.pushed_len = 0;
    }
    fn is_dirty(&self) -> bool {
        self.pushed_len > 0
    }
    fn stamped_write_with_changes(&mut self, _: Stamp) -> Result<()> {
        unreachable!()
    }
    fn rollback(&mut self) -> Result<()> {
        unreachable!()
    }
    fn find_rollback_files(&self) -> Result<BTreeMap<Stamp, PathBuf>> {
        unreachable!()
    }
    fn save_rollback_state(&mut self) {}
}
impl ReadableVec<usize, u64> for ModelVec {
    fn read_into_at(&self, from: usize, to: usize, buf: &mut Vec<u64>) {
        let to = to.min(self.len());
        let mut i = from;
        while i < to {
            buf.push(self.at(i));
            i += 1;
        }
    }
    fn for_each_range_dyn_at(&self, from: usize, to: usize, f: &mut dyn FnMut(u64)) {
        let to = to.min(self.len());
        let mut i = from;
        while i < to {
            f(self.at(i));
            i += 1;
        }
    }
    fn fold_range_at<B, F: FnMut(B, u64) -> B>(&self, from: usize, to: usize, init: B, mut f: F) -> B {
        let to = to.min(self.len());
        let mut acc = init;
        let mut i = from;
        while i < to {
            acc = f(acc, self.at(i));
            i += 1;
        }
        acc
    }
    fn try_fold_range_at<B, E, F: FnMut(B, u64) -> core::result::Result<B, E>>(
        &self,
        from: usize,
        to: usize,
        init: B,
        mut f: F,
    ) -> core::result::Result<B, E> {
        let to = to.min(self.len());
        let mut acc = init;
        let mut i = from;
        while i < to {
            acc = f(acc, self.at(i))?;
            i += 1;
        }
        Ok(acc)
    }
    fn collect_one_at(&self, index: usize) -> Option<u64> {
        if index < self.len() { Some(self.at(index)) } else { None }
    }
}
impl StoredVec for ModelVec {
    type ReadOnly = super::mock::Mock<usize, u64>;
    fn read_only_clone(&self) -> Self::ReadOnly {
        unreachable!()
    }
}
