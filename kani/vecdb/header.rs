//! Mounted as child of base::header: Header builder/observers (private fields).
#![allow(dead_code)]
use super::*;

pub(crate) fn mk_header(vec_version: u32, computed_version: u32, stamp: u64, format: Format) -> Header {
    Header {
        inner: Arc::new(RwLock::new(HeaderInner {
            header_version: HEADER_VERSION,
            vec_version: Version::new(vec_version),
            computed_version: Version::new(computed_version),
            stamp: Stamp::new(stamp),
            format,
        })),
        modified: false,
    }
}
pub(crate) fn clear_modified(h: &mut Header) {
    h.modified = false;
}
