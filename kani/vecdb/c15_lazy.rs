//! C15: lazy vectors equal their defining formula through every read path.
use std::sync::Arc;

use super::mock::{J, MN, Mock, Out};
use super::stubs;
use crate::{
    AnyVec, DeltaSub, LazyAggVec, LazyDeltaVec, LazyVecFrom1, LazyVecFrom2, LazyVecFrom3,
    ReadableBoxedVec, ReadableVec, Version,
};

fn f1(i: usize, a: u32) -> u64 {
    (i as u64) * 1000 + a as u64
}
fn f2(i: usize, a: u32, b: u16) -> u64 {
    (i as u64) << 48 | (a as u64) << 16 | b as u64
}
fn f3(i: usize, a: u32, b: u16, c: u8) -> u64 {
    (i as u64) << 56 | (a as u64) << 24 | (b as u64) << 8 | c as u64
}

/// symbolic range incl. reversed / out of bounds / usize::MAX
fn any_range() -> (usize, usize) {
    let from: usize = kani::any();
    let to: usize = kani::any();
    kani::assume(from <= MN + 2 || from == usize::MAX);
    kani::assume(to <= MN + 2 || to == usize::MAX);
    (from, to)
}

// ---------------------------------------------------------------------------------------------
// LazyVecFrom2, both sources govern, unequal lengths; sources change length after construction
#[kani::proof]
#[kani::unwind(7)]
#[kani::stub(std::vec::Vec::<T>::with_capacity, stubs::with_capacity_stub)]
#[kani::stub(std::vec::Vec::<T>::reserve, stubs::reserve_stub)]
fn c15_from2_range_reads() {
    let s1 = Mock::<usize, u32>::any(3);
    let s2 = Mock::<usize, u16>::any(3);
    let (d1, d2) = (s1.data, s2.data);
    let b1: ReadableBoxedVec<usize, u32> = Box::new(s1);
    let b2: ReadableBoxedVec<usize, u16> = Box::new(s2);
    let (n1, n2) = (b1.len(), b2.len());
    let lz = LazyVecFrom2::<usize, u64, usize, u32, usize, u16>::init("l", Version::ZERO, b1, b2, f2);
    let n = if n1 < n2 { n1 } else { n2 };
    assert!(lz.len() == n);
    let (from, to) = any_range();
    let k: usize = kani::any();
    kani::assume(k < MN);
    let cto = if to < n { to } else { n };
    let cnt = if from < cto { cto - from } else { 0 };

    let got = lz.collect_range_at(from, to);
    assert!(got.len() == cnt);
    if k < cnt {
        assert!(got[k] == f2(from + k, d1[from + k], d2[from + k]));
    }
    // fold / try_fold / for_each_range_dyn agree
    let folded = lz.fold_range_at(from, to, Out::new(), |mut o, v| {
        o.push(v);
        o
    });
    assert!(folded.n == cnt);
    if k < cnt {
        assert!(folded.v[k] == Some(got[k]));
    }
    let tf: Result<Out<u64>, ()> = lz.try_fold_range_at(from, to, Out::new(), |mut o, v| {
        o.push(v);
        Ok(o)
    });
    let tf = tf.unwrap();
    assert!(tf.n == cnt);
    if k < cnt {
        assert!(tf.v[k] == Some(got[k]));
    }
    let mut o = Out::new();
    lz.for_each_range_dyn_at(from, to, &mut |v| o.push(v));
    assert!(o.n == cnt);
    if k < cnt {
        assert!(o.v[k] == Some(got[k]));
    }
    // point read
    let one = lz.collect_one_at(k);
    if k < n {
        assert!(one == Some(f2(k, d1[k], d2[k])));
    } else {
        assert!(one.is_none());
    }
    kani::cover!(cnt == 2 && n1 != n2, "two elements, unequal source lengths");
    kani::cover!(from > to, "reversed range");
    kani::cover!(to == usize::MAX && cnt > 0, "open-ended range");
    core::mem::forget(got);
    core::mem::forget(lz);
}

// LazyVecFrom1 + LazyVecFrom3 (one source with a foreign index type does not govern the length)
#[kani::proof]
#[kani::unwind(7)]
#[kani::stub(std::vec::Vec::<T>::with_capacity, stubs::with_capacity_stub)]
#[kani::stub(std::vec::Vec::<T>::reserve, stubs::reserve_stub)]
fn c15_from1_from3_reads() {
    let s1 = Mock::<usize, u32>::any(3);
    let d1 = s1.data;
    let n1 = s1.n();
    let lz1 = LazyVecFrom1::<usize, u64, usize, u32>::init("l", Version::ZERO, Box::new(s1.clone()), f1);
    assert!(lz1.len() == n1);
    let (from, to) = any_range();
    let k: usize = kani::any();
    kani::assume(k < MN);
    let cto = if to < n1 { to } else { n1 };
    let cnt = if from < cto { cto - from } else { 0 };
    let got = lz1.collect_range_at(from, to);
    assert!(got.len() == cnt);
    if k < cnt {
        assert!(got[k] == f1(from + k, d1[from + k]));
    }
    let one = lz1.collect_one_at(k);
    assert!(one == if k < n1 { Some(f1(k, d1[k])) } else { None });

    // from3: sources 1 and 3 indexed by usize (govern), source 2 by J (does not govern; at least
    // as long as the governing length, which is the documented use)
    let s2 = Mock::<J, u16>::any(MN);
    let s3 = Mock::<usize, u8>::any(3);
    let (d2, d3) = (s2.data, s3.data);
    let (n2, n3) = (s2.n(), s3.n());
    let n = if n1 < n3 { n1 } else { n3 };
    kani::assume(n2 >= n);
    let lz3 = LazyVecFrom3::<usize, u64, usize, u32, J, u16, usize, u8>::init(
        "l", Version::ZERO, Box::new(s1), Box::new(s2), Box::new(s3), f3);
    assert!(lz3.len() == n);
    let cto = if to < n { to } else { n };
    let cnt = if from < cto { cto - from } else { 0 };
    let got3 = lz3.collect_range_at(from, to);
    assert!(got3.len() == cnt);
    if k < cnt {
        assert!(got3[k] == f3(from + k, d1[from + k], d2[from + k], d3[from + k]));
    }
    let one = lz3.collect_one_at(k);
    assert!(one == if k < n { Some(f3(k, d1[k], d2[k], d3[k])) } else { None });
    kani::cover!(cnt == 2 && n2 > n, "foreign-index source longer than governing length");
    core::mem::forget((got, got3, lz1, lz3));
}

// sorted reads (default Cursor-based path of the mocks underneath), duplicates allowed
#[kani::proof]
#[kani::unwind(7)]
#[kani::stub(std::vec::Vec::<T>::with_capacity, stubs::with_capacity_stub)]
#[kani::stub(std::vec::Vec::<T>::reserve, stubs::reserve_stub)]
fn c15_from2_sorted_reads() {
    let s1 = Mock::<usize, u32>::any(3);
    let s2 = Mock::<usize, u16>::any(3);
    let (d1, d2) = (s1.data, s2.data);
    let (n1, n2) = (s1.n(), s2.n());
    let n = if n1 < n2 { n1 } else { n2 };
    let lz = LazyVecFrom2::<usize, u64, usize, u32, usize, u16>::init(
        "l", Version::ZERO, Box::new(s1), Box::new(s2), f2);
    let i0: usize = kani::any();
    let i1: usize = kani::any();
    kani::assume(i0 <= i1 && i1 < n);
    let idx = [i0, i1];
    let got = lz.read_sorted_at(&idx);
    assert!(got.len() == 2);
    assert!(got[0] == f2(i0, d1[i0], d2[i0]));
    assert!(got[1] == f2(i1, d1[i1], d2[i1]));
    kani::cover!(i0 == i1, "duplicate index");
    kani::cover!(i0 != i1 && n1 != n2, "distinct indices, unequal lengths");
    core::mem::forget((got, lz));
}
