//! C15: lazy vectors equal their defining formula through every read path.
use std::sync::Arc;

use super::mock::{J, MN, Mock, Out};
use super::stubs;
use crate::{
    AnyVec, DeltaSub, LazyAggVec, LazyDeltaVec, LazyVecFrom1, LazyVecFrom2, LazyVecFrom3,
    ReadableBoxedVec, ReadableVec, Version,
};

fn f1(i: usize, a: u32) -> u64 {
    (i as u64) * 1000 + a as u64
}
fn f2(i: usize, a: u32, b: u16) -> u64 {
    (i as u64) << 48 | (a as u64) << 16 | b as u64
}
fn f3(i: usize, a: u32, b: u16, c: u8) -> u64 {
    (i as u64) << 56 | (a as u64) << 24 | (b as u64) << 8 | c as u64
}

/// symbolic range incl. reversed / out of bounds / usize::MAX
fn any_range() -> (usize, usize) {
    let from: usize = kani::any();
    let to: usize = kani::any();
    kani::assume(from <= MN + 2 || from == usize::MAX);
    kani::assume(to <= MN + 2 || to == usize::MAX);
    (from, to)
}

// ---------------------------------------------------------------------------------------------
// LazyVecFrom2, both sources govern, unequal lengths; sources change length after construction
#[kani::proof]
#[kani::unwind(7)]
#[kani::stub(std::vec::Vec::<T>::with_capacity, stubs::with_capacity_stub)]
#[kani::stub(std::vec::Vec::<T>::reserve, stubs::reserve_stub)]
fn c15_from2_range_reads() {
    let s1 = Mock::<usize, u32>::any(3);
    let s2 = Mock::<usize, u16>::any(3);
    let (d1, d2) = (s1.data, s2.data);
    let b1: ReadableBoxedVec<usize, u32> = Box::new(s1);
    let b2: ReadableBoxedVec<usize, u16> = Box::new(s2);
    let (n1, n2) = (b1.len(), b2.len());
    let lz = LazyVecFrom2::<usize, u64, usize, u32, usize, u16>::init("l", Version::ZERO, b1, b2, f2);
    let n = if n1 < n2 { n1 } else { n2 };
    assert!(lz.len() == n);
    let (from, to) = any_range();
    let k: usize = kani::any();
    kani::assume(k < MN);
    let cto = if to < n { to } else { n };
    let cnt = if from < cto { cto - from } else { 0 };

    let got = lz.collect_range_at(from, to);
    assert!(got.len() == cnt);
    if k < cnt {
        assert!(got[k] == f2(from + k, d1[from + k], d2[from + k]));
    }
    // fold / try_fold / for_each_range_dyn agree
    let folded = lz.fold_range_at(from, to, Out::new(), |mut o, v| {
        o.push(v);
        o
    });
    assert!(folded.n == cnt);
    if k < cnt {
        assert!(folded.v[k] == Some(got[k]));
    }
    let tf: Result<Out<u64>, ()> = lz.try_fold_range_at(from, to, Out::new(), |mut o, v| {
        o.push(v);
        Ok(o)
    });
    let tf = tf.unwrap();
    assert!(tf.n == cnt);
    if k < cnt {
        assert!(tf.v[k] == Some(got[k]));
    }
    let mut o = Out::new();
    lz.for_each_range_dyn_at(from, to, &mut |v| o.push(v));
    assert!(o.n == cnt);
    if k < cnt {
        assert!(o.v[k] == Some(got[k]));
    }
    // point read
    let one = lz.collect_one_at(k);
    if k < n {
        assert!(one == Some(f2(k, d1[k], d2[k])));
    } else {
        assert!(one.is_none());
    }
    kani::cover!(cnt == 2 && n1 != n2, "two elements, unequal source lengths");
    kani::cover!(from > to, "reversed range");
    kani::cover!(to == usize::MAX && cnt > 0, "open-ended range");
    core::mem::forget(got);
    core::mem::forget(lz);
}

// LazyVecFrom1 + LazyVecFrom3 (one source with a foreign index type does not govern the length)
#[kani::proof]
#[kani::unwind(7)]
#[kani::stub(std::vec::Vec::<T>::with_capacity, stubs::with_capacity_stub)]
#[kani::stub(std::vec::Vec::<T>::reserve, stubs::reserve_stub)]
fn c15_from1_from3_reads() {
    let s1 = Mock::<usize, u32>::any(3);
    let d1 = s1.data;
    let n1 = s1.n();
    let lz1 = LazyVecFrom1::<usize, u64, usize, u32>::init("l", Version::ZERO, Box::new(s1.clone()), f1);
    assert!(lz1.len() == n1);
    let (from, to) = any_range();
    let k: usize = kani::any();
    kani::assume(k < MN);
    let cto = if to < n1 { to } else { n1 };
    let cnt = if from < cto { cto - from } else { 0 };
    let got = lz1.collect_range_at(from, to);
    assert!(got.len() == cnt);
    if k < cnt {
        assert!(got[k] == f1(from + k, d1[from + k]));
    }
    let one = lz1.collect_one_at(k);
    assert!(one == if k < n1 { Some(f1(k, d1[k])) } else { None });

    // from3: sources 1 and 3 indexed by usize (govern), source 2 by J (does not govern; at least
    // as long as the governing length, which is the documented use)
    let s2 = Mock::<J, u16>::any(MN);
    let s3 = Mock::<usize, u8>::any(3);
    let (d2, d3) = (s2.data, s3.data);
    let (n2, n3) = (s2.n(), s3.n());
    let n = if n1 < n3 { n1 } else { n3 };
    kani::assume(n2 >= n);
    let lz3 = LazyVecFrom3::<usize, u64, usize, u32, J, u16, usize, u8>::init(
        "l", Version::ZERO, Box::new(s1), Box::new(s2), Box::new(s3), f3);
    assert!(lz3.len() == n);
    let cto = if to < n { to } else { n };
    let cnt = if from < cto { cto - from } else { 0 };
    let got3 = lz3.collect_range_at(from, to);
    assert!(got3.len() == cnt);
    if k < cnt {
        assert!(got3[k] == f3(from + k, d1[from + k], d2[from + k], d3[from + k]));
    }
    let one = lz3.collect_one_at(k);
    assert!(one == if k < n { Some(f3(k, d1[k], d2[k], d3[k])) } else { None });
    kani::cover!(cnt == 2 && n2 > n, "foreign-index source longer than governing length");
    core::mem::forget((got, got3, lz1, lz3));
}

// sorted reads (default Cursor-based path of the mocks underneath), duplicates allowed
#[kani::proof]
#[kani::unwind(7)]
#[kani::stub(std::vec::Vec::<T>::with_capacity, stubs::with_capacity_stub)]
#[kani::stub(std::vec::Vec::<T>::reserve, stubs::reserve_stub)]
fn c15_from2_sorted_reads() {
    let s1 = Mock::<usize, u32>::any(3);
    let s2 = Mock::<usize, u16>::any(3);
    let (d1, d2) = (s1.data, s2.data);
    let (n1, n2) = (s1.n(), s2.n());
    let n = if n1 < n2 { n1 } else { n2 };
    let lz = LazyVecFrom2::<usize, u64, usize, u32, usize, u16>::init(
        "l", Version::ZERO, Box::new(s1), Box::new(s2), f2);
    let i0: usize = kani::any();
    let i1: usize = kani::any();
    kani::assume(i0 <= i1 && i1 < n);
    let idx = [i0, i1];
    let got = lz.read_sorted_at(&idx);
    assert!(got.len() == 2);
    assert!(got[0] == f2(i0, d1[i0], d2[i0]));
    assert!(got[1] == f2(i1, d1[i1], d2[i1]));
    kani::cover!(i0 == i1, "duplicate index");
    kani::cover!(i0 != i1 && n1 != n2, "distinct indices, unequal lengths");
    core::mem::forget((got, lz));
}

// ---------------------------------------------------------------------------------------------
// LazyDeltaVec<.., DeltaSub>: out[h] = src[h] - src[starts[h]-1]  (0 if starts[h] == 0), saturating
fn delta_expect(d: &[u64; MN], st: &[usize; MN], h: usize) -> u64 {
    let cur = d[h];
    let ago = if st[h] == 0 { 0 } else { d[st[h] - 1] };
    if cur >= ago { cur - ago } else { 0 }
}

#[kani::proof]
#[kani::unwind(7)]
#[kani::stub(std::vec::Vec::<T>::with_capacity, stubs::with_capacity_stub)]
#[kani::stub(std::vec::Vec::<T>::reserve, stubs::reserve_stub)]
fn c15_delta_sub_reads() {
    delta_body(false);
}

/// same with *empty* windows allowed (start = h + 1: the look-back index is h itself, result 0)
#[kani::proof]
#[kani::unwind(7)]
#[kani::stub(std::vec::Vec::<T>::with_capacity, stubs::with_capacity_stub)]
#[kani::stub(std::vec::Vec::<T>::reserve, stubs::reserve_stub)]
fn c15_delta_sub_empty_windows() {
    delta_body(true);
}

fn delta_body(allow_empty: bool) {
    let src = Mock::<usize, u64>::any(3);
    let d = src.data;
    let n = src.n();
    // monotone window starts, starts[h] <= h (non-empty windows) or h + 1 (empty window)
    let st: [usize; MN] = kani::any();
    let mut i = 0;
    while i < MN {
        kani::assume(st[i] <= if allow_empty { i + 1 } else { i });
        if i > 0 {
            kani::assume(st[i - 1] <= st[i]);
        }
        i += 1;
    }
    let starts: Arc<[usize]> = Arc::from(st);
    let s2 = starts.clone();
    let lz = LazyDeltaVec::<usize, u64, u64, DeltaSub>::new("d", Version::ZERO, Box::new(src), Version::ZERO, move || s2.clone());
    assert!(lz.len() == n);
    let (from, to) = any_range();
    let k: usize = kani::any();
    kani::assume(k < MN);
    let cto = if to < n { to } else { n };
    let cnt = if from < cto { cto - from } else { 0 };
    let got = lz.fold_range_at(from, to, Out::<u64>::new(), |mut o, v| {
        o.push(v);
        o
    });
    assert!(got.n == cnt);
    if k < cnt {
        assert!(got.v[k] == Some(delta_expect(&d, &st, from + k)));
    }
    let one = lz.collect_one_at(k);
    assert!(one == if k < n { Some(delta_expect(&d, &st, k)) } else { None });
    kani::cover!(cnt == 2 && from == 1 && st[1] == 0 && st[2] == 1, "range starting in the warm-up zone with a later look-back before `from`");
    kani::cover!(cnt == 3, "whole vector");
    core::mem::forget((lz, starts));
}

// LazyAggVec<.., Sparse>: out[i] = last source value of group i (None for an empty group)
#[kani::proof]
#[kani::unwind(7)]
#[kani::stub(std::vec::Vec::<T>::with_capacity, stubs::with_capacity_stub)]
#[kani::stub(std::vec::Vec::<T>::reserve, stubs::reserve_stub)]
fn c15_agg_sparse_reads() {
    agg_body(Mock::<usize, u32>::any(3));
}
/// Same with the source length fixed per harness (symbolic contents, mapping, ranges): the symbolic-length form
/// needs more than 24 GB.
#[kani::proof]
#[kani::unwind(7)]
#[kani::stub(std::vec::Vec::<T>::with_capacity, stubs::with_capacity_stub)]
#[kani::stub(std::vec::Vec::<T>::reserve, stubs::reserve_stub)]
fn c15_agg_sparse_n3() {
    agg_body(Mock::<usize, u32>::new(kani::any(), 3));
}
#[kani::proof]
#[kani::unwind(7)]
#[kani::stub(std::vec::Vec::<T>::with_capacity, stubs::with_capacity_stub)]
#[kani::stub(std::vec::Vec::<T>::reserve, stubs::reserve_stub)]
fn c15_agg_sparse_n2() {
    agg_body(Mock::<usize, u32>::new(kani::any(), 2));
}
fn agg_body(src: Mock<usize, u32>) {
    let d = src.data;
    let n = src.n();
    // first-index mapping: 3 groups, monotone, within 0..=n
    let mp: [usize; 3] = kani::any();
    kani::assume(mp[0] <= mp[1] && mp[1] <= mp[2] && mp[2] <= n);
    let mapping: Arc<[usize]> = Arc::from(mp);
    let m2 = mapping.clone();
    let lz = LazyAggVec::<usize, Option<u32>, usize, usize, u32>::new("a", Version::ZERO, Version::ZERO, Box::new(src), move || m2.clone());
    assert!(lz.len() == 3);
    let expect = |g: usize| -> Option<u32> {
        let cur = mp[g];
        let next = if g + 1 < 3 { mp[g + 1] } else { n };
        if next == 0 || cur >= next { None } else { Some(d[next - 1]) }
    };
    let k: usize = kani::any();
    kani::assume(k < 4);
    let one = lz.collect_one_at(k);
    assert!(one == if k < 3 { Some(expect(k)) } else { None });
    let (from, to) = any_range();
    let cto = if to < 3 { to } else { 3 };
    let cnt = if from < cto { cto - from } else { 0 };
    let got = lz.fold_range_at(from, to, Out::<Option<u32>>::new(), |mut o, v| {
        o.push(v);
        o
    });
    assert!(got.n == cnt);
    if k < cnt {
        assert!(got.v[k] == Some(expect(from + k)));
    }
    kani::cover!(mp[1] == mp[2] && mp[1] > 0 && k == 1, "empty group that is not at the source start");
    kani::cover!(cnt == 3, "all groups");
    core::mem::forget((lz, mapping));
}
