//! C17: HeaderInner codec (mounted as child of base::header::inner: private to_bytes/from_bytes).
use super::*;

#[kani::proof]
#[kani::unwind(34)]
#[kani::stub(alloc::fmt::format, crate::verif_root::stubs::format_stub)]
fn c17_header_roundtrip_and_garbage() {
    // round trip of every valid header
    let fmt = match kani::any::<u8>() % 5 {
        0 => Format::Bytes,
        1 => Format::ZeroCopy,
        2 => Format::Pco,
        3 => Format::LZ4,
        _ => Format::Zstd,
    };
    let h = HeaderInner {
        header_version: Version::new(kani::any()),
        vec_version: Version::new(kani::any()),
        computed_version: Version::new(kani::any()),
        stamp: Stamp::new(kani::any()),
        format: fmt,
    };
    let b = h.to_bytes();
    assert!(b.len() == HEADER_OFFSET);
    let g = HeaderInner::from_bytes(&b);
    match &g {
        Ok(g) => {
            assert!(g.header_version == h.header_version);
            assert!(g.vec_version == h.vec_version);
            assert!(g.computed_version == h.computed_version);
            assert!(g.stamp == h.stamp);
            assert!(g.format == h.format);
        }
        Err(_) => assert!(false, "valid header must decode"),
    }
    core::mem::forget(g);

    // arbitrary bytes of arbitrary length <= HEADER_OFFSET + 1: Err or a value echoing the bytes
    let raw: [u8; HEADER_OFFSET + 1] = kani::any();
    let n: usize = kani::any();
    kani::assume(n <= HEADER_OFFSET + 1);
    let r = HeaderInner::from_bytes(&raw[..n]);
    match &r {
        Ok(x) => {
            assert!(n >= HEADER_OFFSET);
            assert!(matches!(raw[20], 0 | 1 | 64 | 65 | 66));
            assert!(x.format as u8 == raw[20]);
            assert!(u32::from(x.vec_version) == u32::from_le_bytes([raw[4], raw[5], raw[6], raw[7]]));
            kani::cover!(true, "garbage accepted as a valid header");
        }
        Err(_) => {
            kani::cover!(n < HEADER_OFFSET, "short input rejected");
            kani::cover!(n >= HEADER_OFFSET, "bad format byte rejected");
        }
    }
    core::mem::forget(r);
}
