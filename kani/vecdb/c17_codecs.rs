//! C17: value / page / format / stamp / version codecs.
use super::stubs;
use crate::{Bytes, Error, Format, Page, Stamp, Version};

macro_rules! num_roundtrip {
    ($name:ident, $t:ty, $bits:ty) => {
        #[kani::proof]
        #[kani::unwind(18)]
        #[kani::stub(alloc::fmt::format, stubs::format_stub)]
        fn $name() {
            let x: $bits = kani::any();
            let v = <$t>::from_le_bytes(x.to_le_bytes());
            let b = v.to_bytes();
            let back = <$t>::from_bytes(b.as_ref());
            match &back {
                // bit-exact (floats compared as bit patterns: NaN payloads included)
                Ok(y) => assert!(y.to_le_bytes() == x.to_le_bytes()),
                Err(_) => assert!(false),
            }
            // wrong length is rejected, never a panic
            let raw: [u8; 17] = kani::any();
            let n: usize = kani::any();
            kani::assume(n <= 17);
            let r = <$t>::from_bytes(&raw[..n]);
            assert!(r.is_ok() == (n == core::mem::size_of::<$t>()));
            core::mem::forget((back, r));
        }
    };
}
num_roundtrip!(c17_num_u8, u8, u8);
num_roundtrip!(c17_num_u16, u16, u16);
num_roundtrip!(c17_num_u32, u32, u32);
num_roundtrip!(c17_num_u64, u64, u64);
num_roundtrip!(c17_num_u128, u128, u128);
num_roundtrip!(c17_num_usize, usize, usize);
num_roundtrip!(c17_num_i8, i8, u8);
num_roundtrip!(c17_num_i16, i16, u16);
num_roundtrip!(c17_num_i32, i32, u32);
num_roundtrip!(c17_num_i64, i64, u64);
num_roundtrip!(c17_num_i128, i128, u128);
num_roundtrip!(c17_num_isize, isize, usize);
num_roundtrip!(c17_num_f32, f32, u32);
num_roundtrip!(c17_num_f64, f64, u64);

macro_rules! arr_roundtrip {
    ($name:ident, $n:expr) => {
        #[kani::proof]
        #[kani::unwind(70)]
        #[kani::stub(alloc::fmt::format, stubs::format_stub)]
        fn $name() {
            let a: [u8; $n] = kani::any();
            let back = <[u8; $n]>::from_bytes(a.to_bytes().as_ref());
            let k: usize = kani::any();
            kani::assume(k < $n);
            match &back {
                Ok(y) => assert!(y[k] == a[k]),
                Err(_) => assert!(false),
            }
            let raw: [u8; $n + 1] = kani::any();
            let n: usize = kani::any();
            kani::assume(n <= $n + 1);
            let r = <[u8; $n]>::from_bytes(&raw[..n]);
            assert!(r.is_ok() == (n == $n));
            core::mem::forget((back, r));
        }
    };
}
arr_roundtrip!(c17_arr_1, 1);
arr_roundtrip!(c17_arr_3, 3);
arr_roundtrip!(c17_arr_33, 33);
arr_roundtrip!(c17_arr_65, 65);

#[kani::proof]
#[kani::unwind(18)]
#[kani::stub(alloc::fmt::format, stubs::format_stub)]
fn c17_page_format_stamp_version() {
    // Page: both constructors, raw flag, round trip
    let start: u64 = kani::any();
    let bytes: u32 = kani::any();
    let values: u32 = kani::any();
    kani::assume(values < (1 << 31));
    let raw = kani::any::<bool>();
    let p = if raw { Page::raw(start, bytes, values) } else { Page::compressed(start, bytes, values) };
    assert!(p.is_raw() == raw);
    assert!(p.values_count() == values);
    let q = Page::from_bytes(p.to_bytes().as_ref());
    match &q {
        Ok(q) => {
            assert!(q.start == start && q.bytes == bytes && q.is_raw() == raw && q.values_count() == values);
        }
        Err(_) => assert!(false),
    }
    // arbitrary / truncated bytes
    let b: [u8; 17] = kani::any();
    let n: usize = kani::any();
    kani::assume(n <= 17);
    let r = Page::from_bytes(&b[..n]);
    assert!(r.is_ok() == (n >= 16));
    // Format: exactly the five tags decode, and each to itself
    let fb: u8 = kani::any();
    let f = Format::from_bytes(&[fb]);
    match &f {
        Ok(x) => {
            assert!(matches!(fb, 0 | 1 | 64 | 65 | 66));
            assert!(x.to_bytes()[0] == fb);
        }
        Err(e) => {
            assert!(!matches!(fb, 0 | 1 | 64 | 65 | 66));
            assert!(matches!(e, Error::InvalidFormat(_)));
        }
    }
    let f2 = Format::from_bytes(&b[..n]);
    assert!(f2.is_err() || n == 1);
    // Stamp / Version
    let s: u64 = kani::any();
    let v: u32 = kani::any();
    let s2 = Stamp::from_bytes(Stamp::new(s).to_bytes().as_ref());
    let v2 = Version::from_bytes(Version::new(v).to_bytes().as_ref());
    assert!(matches!(&s2, Ok(x) if u64::from(*x) == s));
    assert!(matches!(&v2, Ok(x) if u32::from(*x) == v));
    core::mem::forget((q, r, f, f2, s2, v2));
}
