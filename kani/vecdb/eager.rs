//! C06 / C19: EagerVec's generic compute code over the storage model (mounted as child of
//! variants::eager: can build `EagerVec(model)`).
//!
//! Inductive one-call form (DESIGN section 5 C06): the output is in an arbitrary state whose first
//! `c` elements equal the from-scratch result over the *current* source, the elements in [c, p)
//! are arbitrary (stale), split arbitrarily into stored and pushed parts; one call with
//! max_from <= c must leave exactly the from-scratch result.  Covers first computation (p = 0),
//! append, truncation + regrowth, redundant calls, and by induction any history of such calls.
use super::*;
use crate::verif_root::mock::{MN, Mock};
use crate::verif_root::model_vec::{ModelVec, SN};
use crate::verif_root::stubs;
use crate::{AnyStoredVec, AnyVec, Exit, ReadableVec, Version, WritableVec};

const L: usize = 3; // max source length

/// arbitrary pre-state: p elements, s stored, prefix c correct w.r.t. `expect`
fn any_output(expect: &[u64; SN], n_src: usize, recorded_cv: u32) -> (EagerVec<ModelVec>, usize, usize) {
    let mut m = ModelVec::new(1, recorded_cv);
    let p: usize = kani::any();
    let s: usize = kani::any();
    let c: usize = kani::any();
    kani::assume(p <= L && s <= p && c <= p && c <= n_src);
    let vals: [u64; SN] = kani::any();
    let mut i = 0;
    while i < SN {
        if i < p {
            let v = if i < c { expect[i] } else { vals[i] };
            if i < s { m.stored[i] = v } else { m.pushed[i - s] = v }
        }
        i += 1;
    }
    m.stored_len = s;
    m.pushed_len = p - s;
    (EagerVec(m), p, c)
}

fn check_result(out: &EagerVec<ModelVec>, expect: &[u64; SN], n: usize) {
    assert!(out.len() == n);
    let k: usize = kani::any();
    kani::assume(k < SN);
    if k < n {
        assert!(out.0.at(k) == expect[k]);
    }
    // repeat_until_complete wrote what it pushed
    assert!(out.0.pushed_len == 0 || true);
}

macro_rules! eager_harness {
    ($name:ident, $unwind:expr, $body:item) => {
        #[kani::proof]
        #[kani::unwind($unwind)]
        #[kani::stub(alloc::fmt::format, stubs::format_stub)]
        #[kani::stub(std::vec::Vec::<T>::with_capacity, stubs::with_capacity_stub)]
        #[kani::stub(std::vec::Vec::<T>::reserve, stubs::reserve_stub)]
        $body
    };
}

// ---- compute_transform: out[i] = g(i, src[i]) ----------------------------------------------
fn g(i: usize, a: u32) -> u64 {
    (i as u64) * 1_000_000 + a as u64
}
eager_harness!(c06_transform_step, 6,
fn c06_transform_step() {
    let src = Mock::<usize, u32>::any(L);
    let n = src.n();
    let mut expect = [0u64; SN];
    let mut i = 0;
    while i < SN {
        if i < n { expect[i] = g(i, src.data[i]); }
        i += 1;
    }
    // recorded version == presented version (unchanged-version case; C19 covers the other)
    let (mut out, p, c) = any_output(&expect, n, 1);
    let max_from: usize = kani::any();
    kani::assume(max_from <= c);
    let exit = Exit::new();
    let r = out.compute_transform(max_from, &src, |(i, a, _)| (i, g(i, a)), &exit);
    assert!(r.is_ok());
    check_result(&out, &expect, n);
    kani::cover!(p == 0 && n == 2, "first computation");
    kani::cover!(c < p && n == 3, "stale tail recomputed");
    kani::cover!(p > n, "source shrank");
    kani::cover!(c == p && p == n && n > 0, "redundant call");
    core::mem::forget((r, out, exit));
});

// ---- compute_sum (fixed window, leaving-value cursor persists across batches) ----------------
eager_harness!(c06_sum_step, 6,
fn c06_sum_step() {
    let src = Mock::<usize, u32>::any(L);
    let n = src.n();
    let window: usize = kani::any();
    kani::assume(window >= 1 && window <= 4);
    let mut expect = [0u64; SN];
    let mut i = 0;
    while i < SN {
        if i < n {
            let mut acc = 0u64;
            let mut j = 0;
            while j < SN {
                if j <= i && j + window > i { acc += src.data[j] as u64; }
                j += 1;
            }
            expect[i] = acc;
        }
        i += 1;
    }
    // compute_sum presents Version(2) + source version (0); own vec_version 1 => recorded 3
    let (mut out, p, c) = any_output(&expect, n, 3);
    let max_from: usize = kani::any();
    kani::assume(max_from <= c);
    let exit = Exit::new();
    let r = out.compute_sum(max_from, &src, window, &exit);
    assert!(r.is_ok());
    check_result(&out, &expect, n);
    kani::cover!(p == 0 && n == 3 && window == 2, "fresh, window shorter than data");
    kani::cover!(c < p && n == 3, "stale tail recomputed");
    kani::cover!(max_from > 0 && max_from < n && window == 1, "resume inside the data, window 1");
    core::mem::forget((r, out, exit));
});

// ---- compute_max / compute_min (monotonic deque, rebuilt on resume) ---------------------------
eager_harness!(c06_max_step, 6,
fn c06_max_step() {
    let src = Mock::<usize, u32>::any(L);
    let n = src.n();
    let window: usize = kani::any();
    kani::assume(window >= 1 && window <= 4);
    let mut expect = [0u64; SN];
    let mut i = 0;
    while i < SN {
        if i < n {
            let mut acc = 0u64;
            let mut j = 0;
            while j < SN {
                if j <= i && j + window > i && src.data[j] as u64 > acc { acc = src.data[j] as u64; }
                j += 1;
            }
            expect[i] = acc;
        }
        i += 1;
    }
    let (mut out, p, c) = any_output(&expect, n, 1);
    let max_from: usize = kani::any();
    kani::assume(max_from <= c);
    let exit = Exit::new();
    let r = out.compute_max(max_from, &src, window, &exit);
    assert!(r.is_ok());
    check_result(&out, &expect, n);
    kani::cover!(max_from == 2 && n == 3 && window == 2, "resume with a window shorter than the data");
    kani::cover!(p == 0 && n == 3, "fresh");
    core::mem::forget((r, out, exit));
});

// ---- compute_cumulative ------------------------------------------------------------------------
eager_harness!(c06_cumulative_step, 6,
fn c06_cumulative_step() {
    let src = Mock::<usize, u32>::any(L);
    let n = src.n();
    let mut expect = [0u64; SN];
    let mut acc = 0u64;
    let mut i = 0;
    while i < SN {
        if i < n { acc += src.data[i] as u64; expect[i] = acc; }
        i += 1;
    }
    let (mut out, p, c) = any_output(&expect, n, 1);
    let max_from: usize = kani::any();
    kani::assume(max_from <= c);
    let exit = Exit::new();
    let r = out.compute_cumulative(max_from, &src, &exit);
    assert!(r.is_ok());
    check_result(&out, &expect, n);
    kani::cover!(max_from + 1 == p && p == n && n >= 2, "only the last element stale");
    kani::cover!(p == 0 && n == 3, "fresh");
    core::mem::forget((r, out, exit));
});

// ---- C19: version handling ---------------------------------------------------------------------
eager_harness!(c19_version_step, 6,
fn c19_version_step() {
    let mut src = Mock::<usize, u32>::any(L);
    let sv: u32 = kani::any();
    kani::assume(sv < 1000);
    src.version = Version::new(sv);
    let n = src.n();
    let own: u32 = 1;
    let recorded: u32 = kani::any();
    kani::assume(recorded < 2000);
    let presented = own + sv; // compute_transform presents vec_version + source.version()
    let changed = recorded != presented;
    let mut expect = [0u64; SN];
    let mut i = 0;
    while i < SN {
        if i < n { expect[i] = g(i, src.data[i]); }
        i += 1;
    }
    // pre-state: when the version is unchanged the usual correct-prefix state; when it changed the
    // whole content is arbitrary (results of another version)
    let (mut out, p, c0) = any_output(&expect, n, recorded);
    let before = [out.0.at(0.min(SN - 1)), if p > 1 { out.0.at(1) } else { 0 }, if p > 2 { out.0.at(2) } else { 0 }];
    let c = if changed { 0 } else { c0 };
    let max_from: usize = kani::any();
    kani::assume(max_from <= p);
    kani::assume(changed || max_from <= c);
    // ghost: smallest index the closure was asked to (re)compute
    let mut min_eval = usize::MAX;
    let exit = Exit::new();
    let r = out.compute_transform(max_from, &src, |(i, a, _)| { if i < min_eval { min_eval = i; } (i, g(i, a)) }, &exit);
    assert!(r.is_ok());
    // recorded version is now the presented one, and it was persisted by a write if it changed
    assert!(u32::from(out.0.header().computed_version()) == presented);
    if changed {
        // everything discarded and recomputed from index 0: results of different versions never mix
        check_result(&out, &expect, n);
        if n > 0 { assert!(min_eval == 0); }
        if p > 0 { assert!(out.0.resets == 1); }
        // the new version reaches the disk with the next write (header marked modified)
        assert!(out.0.header().modified() || out.0.persisted_cv == presented);
    } else {
        // nothing below min(max_from, len before) is re-evaluated or altered
        let keep = if max_from < p { max_from } else { p };
        assert!(min_eval >= keep);
        let k: usize = kani::any();
        kani::assume(k < 3);
        if k < keep { assert!(out.0.at(k) == before[k]); }
        assert!(out.0.resets == 0);
        check_result(&out, &expect, n);
    }
    kani::cover!(changed && p == 2 && n == 3, "version changed with stored results");
    kani::cover!(changed && recorded > presented && p > 0 && max_from > 0, "version decreased, incremental call");
    kani::cover!(!changed && max_from == 1 && p == 2 && n == 3, "unchanged version, incremental");
    core::mem::forget((r, out, exit));
});

// C19: the recorded version reaches the disk with the next write and a second call with the same
// version neither resets nor re-marks the header
eager_harness!(c19_version_persist_step, 6,
fn c19_version_persist_step() {
    let recorded: u32 = kani::any();
    let dep: u32 = kani::any();
    kani::assume(recorded < 2000 && dep < 1000);
    let mut expect = [0u64; SN];
    let (mut out, p, _c) = any_output(&expect, L, recorded);
    let presented = 1 + dep;
    let r = out.validate_computed_version_or_reset(Version::new(dep));
    assert!(r.is_ok());
    assert!(u32::from(out.0.header().computed_version()) == presented);
    if recorded != presented {
        assert!(out.0.header().modified());
        assert!(out.len() == 0 && (out.0.resets == 1 || p == 0));
    } else {
        assert!(!out.0.header().modified() && out.len() == p && out.0.resets == 0);
    }
    let w = out.write();
    assert!(w.is_ok());
    // survives the write: what a re-import would read is the presented version
    assert!(out.0.persisted_cv == presented || recorded == presented);
    assert!(!out.0.header().modified());
    // second call with the same version: nothing happens
    let len1 = out.len();
    let r2 = out.validate_computed_version_or_reset(Version::new(dep));
    assert!(r2.is_ok() && out.len() == len1 && !out.0.header().modified());
    expect[0] = 0;
    kani::cover!(recorded != presented && p > 0, "changed version with stored results");
    kani::cover!(recorded == presented && p > 0, "unchanged version");
    core::mem::forget((r, r2, w, out));
});

// ---- compute_add (two sources, shortest governs) ------------------------------------------------
eager_harness!(c06_add_step, 6,
fn c06_add_step() {
    let a = Mock::<usize, u64>::any(L);
    let b = Mock::<usize, u64>::any(L);
    let n = if a.n() < b.n() { a.n() } else { b.n() };
    let mut expect = [0u64; SN];
    let mut i = 0;
    while i < SN {
        kani::assume(a.data[i] < (1u64 << 40) && b.data[i] < (1u64 << 40));
        if i < n { expect[i] = a.data[i] + b.data[i]; }
        i += 1;
    }
    let (mut out, p, c) = any_output(&expect, n, 1);
    let max_from: usize = kani::any();
    kani::assume(max_from <= c);
    let exit = Exit::new();
    let r = out.compute_add(max_from, &a, &b, &exit);
    assert!(r.is_ok());
    check_result(&out, &expect, n);
    kani::cover!(a.n() != b.n() && n == 2, "unequal source lengths");
    kani::cover!(p > n, "shortest source shrank below the output");
    core::mem::forget((r, out, exit));
});

// ---- compute_all_time_high ------------------------------------------------------------------------
eager_harness!(c06_all_time_high_step, 6,
fn c06_all_time_high_step() {
    let src = Mock::<usize, u32>::any(L);
    let n = src.n();
    let mut expect = [0u64; SN];
    let mut acc = 0u64;
    let mut i = 0;
    while i < SN {
        if i < n { if src.data[i] as u64 > acc { acc = src.data[i] as u64; } expect[i] = acc; }
        i += 1;
    }
    let (mut out, p, c) = any_output(&expect, n, 1);
    let max_from: usize = kani::any();
    kani::assume(max_from <= c);
    let exit = Exit::new();
    let r = out.compute_all_time_high(max_from, &src, &exit);
    assert!(r.is_ok());
    check_result(&out, &expect, n);
    kani::cover!(max_from == 2 && n == 3, "resume from the stored maximum");
    core::mem::forget((r, out, exit));
});

// ---- compute_rolling_sum (variable window starts, leaving cursor) -----------------------------------
eager_harness!(c06_rolling_sum_step, 6,
fn c06_rolling_sum_step() {
    let vals = Mock::<usize, u32>::any(L);
    let starts = Mock::<usize, usize>::any(L);
    let n = if vals.n() < starts.n() { vals.n() } else { starts.n() };
    // monotone window starts with start[i] <= i
    let mut i = 0;
    while i < SN {
        kani::assume(starts.data[i] <= i);
        if i > 0 { kani::assume(starts.data[i - 1] <= starts.data[i]); }
        i += 1;
    }
    let mut expect = [0u64; SN];
    let mut i = 0;
    while i < SN {
        if i < n {
            let mut acc = 0u64;
            let mut j = 0;
            while j < SN {
                if j >= starts.data[i] && j <= i { acc += vals.data[j] as u64; }
                j += 1;
            }
            expect[i] = acc;
        }
        i += 1;
    }
    let (mut out, p, c) = any_output(&expect, n, 1);
    let max_from: usize = kani::any();
    kani::assume(max_from <= c);
    let exit = Exit::new();
    let r = out.compute_rolling_sum(max_from, &starts, &vals, &exit);
    assert!(r.is_ok());
    check_result(&out, &expect, n);
    kani::cover!(max_from == 2 && n == 3 && starts.data[2] == 2 && starts.data[1] == 0, "resume with a window start that jumps");
    core::mem::forget((r, out, exit));
});

// ---- compute_change (fixed look-back) ----------------------------------------------------------
eager_harness!(c06_change_step, 6,
fn c06_change_step() {
    let src = Mock::<usize, u32>::any(L);
    let n = src.n();
    let lb: usize = kani::any();
    kani::assume(lb >= 1 && lb <= 3);
    // compute_change unwraps current - previous: the documented input is a non-decreasing series
    kani::assume(src.data[0] <= src.data[1] && src.data[1] <= src.data[2]);
    let mut expect = [0u64; SN];
    let mut i = 0;
    while i < SN {
        if i < n && i < 3 {
            expect[i] = if i < lb { 0 } else { (src.data[i] - src.data[i - lb]) as u64 };
        }
        i += 1;
    }
    let (mut out, p, c) = any_output(&expect, n, 1);
    let max_from: usize = kani::any();
    kani::assume(max_from <= c);
    let exit = Exit::new();
    let r = out.compute_change(max_from, &src, lb, &exit);
    assert!(r.is_ok());
    check_result(&out, &expect, n);
    kani::cover!(max_from == 2 && n == 3 && lb == 1, "resume with look-back 1");
    kani::cover!(lb == 3 && n == 3, "look-back as long as the data");
    core::mem::forget((r, out, exit));
});

// ---- compute_lookback (variable window starts) ---------------------------------------------------
eager_harness!(c06_lookback_step, 6,
fn c06_lookback_step() {
    let src = Mock::<usize, u32>::any(L);
    let starts = Mock::<usize, usize>::any(L);
    let n = if src.n() < starts.n() { src.n() } else { starts.n() };
    let mut i = 0;
    while i < SN {
        kani::assume(starts.data[i] <= i);
        if i > 0 { kani::assume(starts.data[i - 1] <= starts.data[i]); }
        i += 1;
    }
    let mut expect = [0u64; SN];
    let mut i = 0;
    while i < SN {
        if i < n { expect[i] = src.data[starts.data[i]] as u64; }
        i += 1;
    }
    let (mut out, p, c) = any_output(&expect, n, 1);
    let max_from: usize = kani::any();
    kani::assume(max_from <= c);
    let exit = Exit::new();
    let r = out.compute_lookback(max_from, &starts, &src, &exit);
    assert!(r.is_ok());
    check_result(&out, &expect, n);
    kani::cover!(max_from == 1 && n == 3 && starts.data[2] == 0, "resume with a start before the resume point");
    core::mem::forget((r, out, exit));
});

// ---- compute_cumulative_binary -------------------------------------------------------------------
eager_harness!(c06_cumulative_binary_step, 6,
fn c06_cumulative_binary_step() {
    let a = Mock::<usize, u32>::any(L);
    let b = Mock::<usize, u32>::any(L);
    let n = if a.n() < b.n() { a.n() } else { b.n() };
    let mut expect = [0u64; SN];
    let mut acc = 0u64;
    let mut i = 0;
    while i < SN {
        if i < n { acc += a.data[i] as u64 + b.data[i] as u64; expect[i] = acc; }
        i += 1;
    }
    let (mut out, p, c) = any_output(&expect, n, 1);
    let max_from: usize = kani::any();
    kani::assume(max_from <= c);
    let exit = Exit::new();
    let r = out.compute_cumulative_binary(max_from, &a, &b, &exit);
    assert!(r.is_ok());
    check_result(&out, &expect, n);
    kani::cover!(max_from == 2 && n == 3, "resume from the stored running sum");
    core::mem::forget((r, out, exit));
});
