//! C07 (index half, unit level): `Pages` keeps the on-disk page index equal to the in-memory one.
//! Mounted as a child of variants::compressed::inner::pages (private fields).
use super::*;
use crate::verif_root::stubs;

const NP: usize = 3; // page slots in the contract-mode pages region (16 bytes each)
const CAPB: usize = NP * 16;

fn any_page() -> Page {
    let start: u64 = kani::any();
    let bytes: u32 = kani::any();
    let values: u32 = kani::any();
    kani::assume(values < (1 << 31));
    if kani::any() { Page::raw(start, bytes, values) } else { Page::compressed(start, bytes, values) }
}

fn page_at(buf: &[u8; CAPB], i: usize) -> (u64, u32, u32) {
    let o = 16 * i;
    (
        u64::from_le_bytes([buf[o], buf[o + 1], buf[o + 2], buf[o + 3], buf[o + 4], buf[o + 5], buf[o + 6], buf[o + 7]]),
        u32::from_le_bytes([buf[o + 8], buf[o + 9], buf[o + 10], buf[o + 11]]),
        u32::from_le_bytes([buf[o + 12], buf[o + 13], buf[o + 14], buf[o + 15]]),
    )
}

/// From an arbitrary *synced* index (n pages on disk = n pages in memory, nothing pending), apply
/// truncate(t) and then up to one checked_push, flush: the region holds exactly the in-memory
/// pages (bytes compared) and is exactly 16 * len long.
#[kani::proof]
#[kani::unwind(6)]
#[kani::stub(alloc::fmt::format, stubs::format_stub)]
#[kani::stub(rawdb::Database::sync_bg_tasks, rawdb::verif_root::sync_bg_tasks_stub)]
#[kani::stub(std::vec::Vec::<T>::with_capacity, stubs::with_capacity_stub64)]
#[kani::stub(std::vec::Vec::<T>::reserve, stubs::reserve_stub64)]
#[kani::stub(<[u8]>::to_vec, stubs::to_vec_stub)]
fn c07_pages_flush_step() {
    let mut buf: Box<[u8; CAPB]> = Box::new(kani::any());
    let n: usize = kani::any();
    kani::assume(n <= 2);
    // in-memory pages = what is on disk
    let mut vec: Vec<Page> = Vec::with_capacity(64);
    let mut i = 0;
    while i < 2 {
        if i < n {
            let (s, b, v) = page_at(&buf, i);
            unsafe {
                vec.as_mut_ptr().add(i).write(Page { start: s, bytes: b, values: v });
                vec.set_len(i + 1);
            }
        }
        i += 1;
    }
    let (db, region) = rawdb::verif_root::api_contract_db(buf.as_mut_ptr(), CAPB, 16 * n);
    let mut pages = Pages { region, vec, change_at: None };
    // edit
    // precondition of Pages::truncate as used by write(): page_index <= number of pages
    let t: usize = kani::any();
    kani::assume(t <= n);
    let do_trunc = kani::any::<bool>();
    if do_trunc {
        let old = pages.truncate(t);
        assert!(old.is_some() == (t < n));
    }
    let len1 = pages.len();
    assert!(len1 == if do_trunc && t < n { t } else { n });
    let do_push = kani::any::<bool>();
    let p = any_page();
    if do_push {
        let idx: usize = kani::any();
        kani::assume(idx <= 3);
        let r = pages.checked_push(idx, p);
        // refused at a wrong index, with no effect
        assert!(r.is_ok() == (idx == len1));
        assert!(pages.len() == len1 + r.is_ok() as usize);
        core::mem::forget(r);
    }
    let len2 = pages.len();
    let r = pages.flush();
    assert!(r.is_ok());
    // W4/W6: the pages region is exactly the in-memory index
    assert!(pages.region.meta().len() == 16 * len2, "pages region length differs from 16 * number of pages");
    let k: usize = kani::any();
    kani::assume(k < NP);
    if k < len2 {
        let (s, b, v) = page_at(&buf, k);
        let q = pages.get(k).unwrap();
        assert!(q.start == s && q.bytes == b && q.values == v);
    }
    // nothing pending afterwards
    assert!(pages.change_at.is_none());
    kani::cover!(do_trunc && t == 0 && n == 2 && !do_push, "truncate to zero, nothing pushed");
    kani::cover!(do_trunc && t == 1 && n == 2 && do_push && len2 == 2, "truncate into the index then push");
    kani::cover!(!do_trunc && do_push && len2 == n + 1, "append");
    core::mem::forget((r, pages, db, buf));
}

/// Concrete-shape versions of the step above (the symbolic-length one exhausts memory): the number of
/// pages, whether/where the index is truncated and whether a page is pushed are fixed per harness;
/// page contents, the file bytes and the index presented to checked_push are symbolic.
fn pf_body(n: usize, trunc: Option<usize>, push: bool) {
    let mut buf: Box<[u8; CAPB]> = Box::new(kani::any());
    let mut vec: Vec<Page> = Vec::with_capacity(64);
    let mut i = 0;
    while i < 2 {
        if i < n {
            let (s, b, v) = page_at(&buf, i);
            unsafe {
                vec.as_mut_ptr().add(i).write(Page { start: s, bytes: b, values: v });
                vec.set_len(i + 1);
            }
        }
        i += 1;
    }
    let (db, region) = rawdb::verif_root::api_contract_db(buf.as_mut_ptr(), CAPB, 16 * n);
    let mut pages = Pages { region, vec, change_at: None };
    if let Some(t) = trunc {
        let old = pages.truncate(t);
        assert!(old.is_some() == (t < n));
    }
    let len1 = pages.len();
    assert!(len1 == match trunc { Some(t) if t < n => t, _ => n });
    let p = any_page();
    if push {
        let r = pages.checked_push(len1, p);
        assert!(r.is_ok() && pages.len() == len1 + 1);
        core::mem::forget(r);
    }
    let len2 = pages.len();
    let r = pages.flush();
    assert!(r.is_ok());
    // the pages region is exactly the in-memory index
    assert!(pages.region.meta().len() == 16 * len2, "pages region length differs from 16 * number of pages");
    let k: usize = kani::any();
    kani::assume(k < NP);
    if k < len2 {
        let (s, b, v) = page_at(&buf, k);
        let q = pages.get(k).unwrap();
        assert!(q.start == s && q.bytes == b && q.values == v, "page index on disk differs from the in-memory index");
    }
    assert!(pages.change_at.is_none());
    kani::cover!(true, "flushed");
    core::mem::forget((r, pages, db, buf));
}
macro_rules! pf {
    ($name:ident, $n:expr, $trunc:expr, $push:expr) => {
        #[kani::proof]
        #[kani::unwind(6)]
        #[kani::stub(alloc::fmt::format, stubs::format_stub)]
        #[kani::stub(rawdb::Database::sync_bg_tasks, rawdb::verif_root::sync_bg_tasks_stub)]
        #[kani::stub(std::vec::Vec::<T>::with_capacity, stubs::with_capacity_stub64)]
        #[kani::stub(std::vec::Vec::<T>::reserve, stubs::reserve_stub64)]
        #[kani::stub(<[u8]>::to_vec, stubs::to_vec_stub)]
        fn $name() {
            pf_body($n, $trunc, $push);
        }
    };
}
/// checked_push at any index other than the current length is refused with no effect.
#[kani::proof]
#[kani::unwind(6)]
#[kani::stub(alloc::fmt::format, stubs::format_stub)]
#[kani::stub(rawdb::Database::sync_bg_tasks, rawdb::verif_root::sync_bg_tasks_stub)]
#[kani::stub(<[u8]>::to_vec, stubs::to_vec_stub)]
fn c07_pages_push_wrong_index() {
    let mut buf: Box<[u8; CAPB]> = Box::new(kani::any());
    let mut vec: Vec<Page> = Vec::with_capacity(64);
    let (s0, b0, v0) = page_at(&buf, 0);
    unsafe {
        vec.as_mut_ptr().write(Page { start: s0, bytes: b0, values: v0 });
        vec.set_len(1);
    }
    let (db, region) = rawdb::verif_root::api_contract_db(buf.as_mut_ptr(), CAPB, 16);
    let mut pages = Pages { region, vec, change_at: None };
    let idx: usize = kani::any();
    kani::assume(idx != 1);
    let r = pages.checked_push(idx, any_page());
    assert!(r.is_err() && pages.len() == 1 && pages.change_at.is_none(), "push at a wrong index must be refused with no effect");
    kani::cover!(true, "refused");
    core::mem::forget((r, pages, db, buf));
}
pf!(c07_pf_n0_push, 0, None, true);
pf!(c07_pf_n0_t0, 0, Some(0), false);
pf!(c07_pf_n1_push, 1, None, true);
pf!(c07_pf_n1_t0, 1, Some(0), false);
pf!(c07_pf_n1_t0_push, 1, Some(0), true);
pf!(c07_pf_n1_t1_push, 1, Some(1), true);
pf!(c07_pf_n2_push, 2, None, true);
pf!(c07_pf_n2_t0, 2, Some(0), false);
pf!(c07_pf_n2_t1, 2, Some(1), false);
pf!(c07_pf_n2_t1_push, 2, Some(1), true);
pf!(c07_pf_n2_none, 2, None, false);

/// Index arithmetic at the real page capacity: next_start / stored_len / Page::end
#[kani::proof]
#[kani::unwind(6)]
#[kani::stub(alloc::fmt::format, stubs::format_stub)]
#[kani::stub(rawdb::Database::sync_bg_tasks, rawdb::verif_root::sync_bg_tasks_stub)]
#[kani::stub(<[u8]>::to_vec, stubs::to_vec_stub)]
fn c07_pages_arithmetic() {
    let a = any_page();
    let b = any_page();
    kani::assume(a.start <= u64::MAX / 4 && b.start <= u64::MAX / 4);
    let per_page: usize = kani::any();
    kani::assume(per_page >= 1 && per_page <= 16384);
    let (_db, region) = {
        let mut buf: Box<[u8; CAPB]> = Box::new([0; CAPB]);
        let r = rawdb::verif_root::api_contract_db(buf.as_mut_ptr(), CAPB, 0);
        core::mem::forget(buf);
        r
    };
    let two = kani::any::<bool>();
    let mut vec: Vec<Page> = Vec::with_capacity(4);
    unsafe {
        vec.as_mut_ptr().write(a);
        vec.as_mut_ptr().add(1).write(b);
        vec.set_len(if two { 2 } else { 1 });
    }
    let pages = Pages { region, vec, change_at: None };
    let last = if two { b } else { a };
    assert!(pages.next_start() == last.start + last.bytes as u64);
    assert!(pages.stored_len(per_page) == (if two { per_page } else { 0 }) + last.values_count() as usize);
    core::mem::forget((pages, _db));
}

/// Builder for the compressed-vector harnesses.
pub(crate) fn mk_pages(region: Region, ps: &[Page; 3], n: usize) -> Pages {
    assert!(n <= 3);
    let mut vec: Vec<Page> = Vec::with_capacity(64);
    let mut i = 0;
    while i < 3 {
        if i < n {
            unsafe {
                vec.as_mut_ptr().add(i).write(ps[i]);
                vec.set_len(i + 1);
            }
        }
        i += 1;
    }
    Pages { region, vec, change_at: None }
}
pub(crate) fn pages_region_len(p: &Pages) -> usize {
    p.region.meta().len()
}
pub(crate) fn pages_pending(p: &Pages) -> bool {
    p.change_at.is_some()
}
