//! Mounted at the end of vecdb/src/lib.rs (generated tree only): shared mocks + harness modules.
#![allow(unused_imports, dead_code)]

#[path = "/verif/kani/common/stubs.rs"]
pub mod stubs;
#[path = "/verif/kani/vecdb/mock.rs"]
pub mod mock;
#[path = "/verif/kani/vecdb/c15_lazy.rs"]
mod c15_lazy;
#[path = "/verif/kani/vecdb/c17_codecs.rs"]
mod c17_codecs;
#[path = "/verif/kani/vecdb/model_vec.rs"]
pub mod model_vec;
#[path = "/verif/kani/vecdb/c08_cached.rs"]
mod c08_cached;
