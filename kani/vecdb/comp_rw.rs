//! C07 (framework half): ReadWriteCompressedVec::write() keeps the page index well formed and the
//! data bit-exact.  Mounted as a child of variants::compressed::inner::read_write.
//! Pages hold 2 values (MAX_UNCOMPRESSED_PAGE_SIZE = 8 under cfg(kani)); the "codec" is the identity
//! encoding (what is checked is which bytes go to which page and come back, not the codec).
use super::*;
use crate::base::verif_base::{mk_base, vec4};
use crate::variants::compressed::inner::pages::verif_pages::{mk_pages, pages_pending, pages_region_len};
use crate::verif_root::stubs;
use crate::{Bytes, HEADER_OFFSET, Page, ReadableVec, ValueStrategy};

#[derive(Debug, Clone, Copy)]
pub(crate) struct IdStrat;
impl ValueStrategy<u32> for IdStrat {
    const IS_NATIVE_LAYOUT: bool = true;
    fn read(bytes: &[u8]) -> Result<u32> {
        u32::from_bytes(bytes)
    }
    fn write_to_vec(value: &u32, buf: &mut Vec<u8>) {
        buf.extend_from_slice(&value.to_le_bytes());
    }
    fn write_to_slice(value: &u32, dst: &mut [u8]) {
        dst.copy_from_slice(&value.to_le_bytes());
    }
}
impl CompressionStrategy<u32> for IdStrat {
    fn compress(values: &[u32]) -> Result<Vec<u8>> {
        Ok(Self::values_to_bytes(values))
    }
    fn decompress(bytes: &[u8], expected_len: usize) -> Result<Vec<u32>> {
        Self::bytes_to_values(bytes, expected_len)
    }
}

type CV = ReadWriteCompressedVec<usize, u32, IdStrat>;
const PP: usize = 4; // values per page (16-byte pages under cfg(kani))
const DCAP: usize = HEADER_OFFSET + 2 * 16; // data region: header + 2 pages
const PCAP: usize = 2 * 16; // page-index region

/// One write() step from the well-formed index "f full compressed pages + a raw tail page with t
/// values" (f <= 1, t <= 3), logical length `stored_len` (<= on-disk: truncated or not) and `np`
/// pushed values.  Structure concrete (symbolic lengths make std's Vec machinery exhaust memory in
/// symbolic execution), all element values and file bytes symbolic.
fn comp_body(f: usize, t: usize, stored_len: usize, np: usize) {
    assert!(CV::PER_PAGE == PP);
    let mut buf: Box<[u8; DCAP + PCAP]> = Box::new(kani::any());
    let real_len = PP * f + t;
    assert!(f <= 1 && t <= 3 && stored_len <= real_len && np <= 4 && stored_len + np <= 8);
    let mut ps = [Page::compressed(0, 0, 0); 3];
    if f == 1 {
        ps[0] = Page::compressed(HEADER_OFFSET as u64, 16, PP as u32);
    }
    if t > 0 {
        ps[f] = Page::raw((HEADER_OFFSET + 16 * f) as u64, (4 * t) as u32, t as u32);
    }
    let npages = f + (t > 0) as usize;
    let data_len = HEADER_OFFSET + 16 * f + 4 * t;
    let mut disk = [0u32; 8];
    let mut i = 0;
    while i < 8 {
        let o = HEADER_OFFSET + 4 * i;
        disk[i] = u32::from_le_bytes([buf[o], buf[o + 1], buf[o + 2], buf[o + 3]]);
        i += 1;
    }
    let (db, data_region, pages_region) =
        rawdb::verif_root::api_contract_db2(buf.as_mut_ptr(), DCAP, data_len, PCAP, 16 * npages);
    let pv: [u32; 4] = kani::any();
    let header = crate::base::verif_header::mk_header(kani::any(), kani::any(), kani::any(), Format::Pco);
    let base = mk_base::<usize, u32>(data_region, header, stored_len, vec4(&pv, np), Vec::new(), stored_len, 0);
    let mut v = CV { base, pages: Arc::new(RwLock::new(mk_pages(pages_region, &ps, npages))), _strategy: PhantomData };
    let r = v.write();
    assert!(r.is_ok());
    let new_len = stored_len + np;
    assert!(v.stored_len() == new_len && v.len() == new_len && v.pushed().is_empty());
    {
        let pages = v.pages.read();
        let n = pages.len();
        // W3: value counts add up to the published length
        assert!(pages.stored_len(PP) == new_len);
        assert!(n == (new_len + PP - 1) / PP);
        // W1 gap-free from the header, W2 all but the last full and compressed, W5 raw page size
        let mut expect_start = HEADER_OFFSET as u64;
        let mut k = 0;
        while k < 3 {
            if k < n {
                let p = pages.get(k).unwrap();
                assert!(p.start == expect_start, "page does not start where the previous one ends");
                if k + 1 < n {
                    assert!(!p.is_raw() && p.values_count() as usize == PP);
                }
                if p.is_raw() {
                    assert!(p.bytes as usize == 4 * p.values_count() as usize, "raw page byte length differs from 4 * values");
                }
                assert!(p.values_count() >= 1 && p.values_count() as usize <= PP);
                expect_start = p.end();
            }
            k += 1;
        }
        // W4: the data region ends where the last page ends; the index region is 16 bytes per page
        assert!(v.region().meta().len() as u64 == expect_start, "data region does not end where the last page ends");
        assert!(pages_region_len(&pages) == 16 * n, "page-index region length differs from 16 * pages");
        assert!(!pages_pending(&pages));
    }
    // lossless: every element is on disk where the index says (identity codec: slot k at 32 + 4k)
    let k: usize = kani::any();
    kani::assume(k < 8);
    if k < new_len {
        let want = if k < stored_len { disk[k] } else { pv[k - stored_len] };
        let o = HEADER_OFFSET + 4 * k;
        assert!(u32::from_le_bytes([buf[o], buf[o + 1], buf[o + 2], buf[o + 3]]) == want);
    }
    kani::cover!(true, "write step completed");
    core::mem::forget((r, v, db, buf));
}

macro_rules! comp {
    ($( $name:ident = ($f:expr, $t:expr, $sl:expr, $np:expr); )*) => {
        $(
            #[kani::proof]
            #[kani::unwind(10)]
            #[kani::stub(alloc::fmt::format, stubs::format_stub)]
            #[kani::stub(rawdb::Database::sync_bg_tasks, rawdb::verif_root::sync_bg_tasks_stub)]
            #[kani::stub(<[u8]>::to_vec, stubs::to_vec_stub8)]
            fn $name() {
                comp_body($f, $t, $sl, $np);
            }
        )*
    };
}
// (full pages, raw tail values, logical length, pushed)
comp! {
    c07_cw_fresh_raw = (0, 0, 0, 1);
    c07_cw_fresh_full = (0, 0, 0, 4);
    c07_cw_fast_append = (0, 2, 2, 1);
    c07_cw_fill_exactly = (0, 2, 2, 2);
    c07_cw_overflow_by_one = (0, 3, 3, 2);
    c07_cw_trunc_in_raw = (0, 2, 1, 0);
    c07_cw_trunc_in_raw_push = (0, 2, 1, 1);
    c07_cw_trunc_boundary = (1, 2, 4, 0);
    c07_cw_trunc_in_compressed = (1, 0, 2, 0);
    c07_cw_trunc_in_compressed_push = (1, 0, 2, 1);
    c07_cw_fill_second_page = (1, 1, 5, 3);
    c07_cw_trunc_to_zero = (0, 2, 0, 0);
    c07_cw_noop = (1, 2, 6, 0);
}

// ---------------------------------------------------------------------------------------------
// C13 (import refusal, compressed formats): an import that is refused because the stored header does
// not match has asked for no other region, written nothing and removed nothing.
fn c13_region_name(_name: &str, _index: &str) -> String {
    String::from("v/usize")
}
#[kani::proof]
#[kani::unwind(10)]
#[kani::stub(alloc::fmt::format, stubs::format_stub)]
#[kani::stub(rawdb::Database::sync_bg_tasks, rawdb::verif_root::sync_bg_tasks_stub)]
#[kani::stub(rawdb::Database::remove_region_if_exists, rawdb::verif_root::remove_region_if_exists_stub)]
#[kani::stub(std::vec::Vec::<T>::with_capacity, stubs::with_capacity_stub)]
#[kani::stub(std::vec::Vec::<T>::reserve, stubs::reserve_stub)]
#[kani::stub(<[u8]>::to_vec, stubs::to_vec_stub8)]
#[kani::stub(crate::base::read_write::vec_region_name, c13_region_name)]
#[kani::stub(rawdb::Database::create_region_if_needed, rawdb::verif_root::create_region_if_needed_stub)]
#[kani::stub(rawdb::Database::get_region, rawdb::verif_root::get_region_none_stub)]
fn c13_comp_import_refused_no_effect() {
    const CAP: usize = 48;
    let mut buf: Box<[u8; CAP]> = Box::new(kani::any());
    let stored_hv: u32 = kani::any();
    let stored_vv: u32 = kani::any();
    kani::assume(stored_vv < 1000);
    buf[0..4].copy_from_slice(&stored_hv.to_le_bytes());
    buf[4..8].copy_from_slice(&stored_vv.to_le_bytes());
    // the region currently holds a raw Bytes vector (format byte 0); a compressed import must refuse it
    buf[20] = 0;
    // data region: header + 8 bytes; a second, empty region stands for whatever a second request would yield
    let (db, ra, rb) = rawdb::verif_root::api_contract_db2(buf.as_mut_ptr(), CAP - 8, HEADER_OFFSET + 8, 8, 0);
    rawdb::verif_root::set_contract_regions(&ra, Some(&rb));
    let req: u32 = kani::any();
    kani::assume(req < 1000);
    rawdb::verif_root::ghost_clear();
    let opts = crate::ImportOptions::new(&db, "v", Version::new(req));
    let res = CV::import_with(opts, Format::Pco);
    assert!(res.is_err(), "a compressed import accepted a raw vector");
    assert!(rawdb::verif_root::ghost_creates() == 1, "refused import asked for (created) a region besides the vector's own");
    assert!(rawdb::verif_root::ghost_writes() == 0, "refused import wrote to the region");
    assert!(rawdb::verif_root::ghost_removals() == 0, "plain import discarded data");
    kani::cover!(true, "refused");
    core::mem::forget((res, db, buf));
}
