//! C08 / C09: CachedVec over a mock source.  The budget hook (called between the reader's length
//! snapshot and the cache store) plays the writer publishing a longer length at exactly that point.
use std::sync::atomic::{AtomicU64, AtomicUsize, Ordering};
use std::sync::Arc;

use super::mock::{MN, Mock, Out};
use super::stubs;
use crate::{AnyVec, CachedVec, CachedVecBudget, ReadableVec};

static GROW_TO: AtomicUsize = AtomicUsize::new(usize::MAX);
static SRC: AtomicUsize = AtomicUsize::new(0); // address of the mock (harness-local, outlives the reads)

struct GrowBudget;
impl CachedVecBudget for GrowBudget {
    fn try_reserve(&self, _n: u64) -> bool {
        let to = GROW_TO.load(Ordering::Relaxed);
        if to != usize::MAX {
            let m = unsafe { &*(SRC.load(Ordering::Relaxed) as *const Mock<usize, u32>) };
            m.set_len(to);
        }
        true
    }
}
static BUDGET: GrowBudget = GrowBudget;

/// Lengths concrete per harness (symbolic-length `Vec -> Arc<[T]>` conversions exhaust memory in
/// symbolic execution); element values, probe indices and ranges symbolic.
fn race_body(l1: usize, l2: usize) {
    let data: [u32; MN] = kani::any();
    let src = Mock::<usize, u32>::new(data, l1);
    let d = data;
    let cv = CachedVec::wrap_budgeted(src, &BUDGET, Arc::new(AtomicU64::new(0)));
    SRC.store(&cv.inner as *const Mock<usize, u32> as usize, Ordering::Relaxed);
    // reader 1: the writer publishes length l2 between its length snapshot and its cache store
    GROW_TO.store(l2, Ordering::Relaxed);
    let j: usize = kani::any();
    kani::assume(j < MN);
    let first = cv.collect_one_at(j);
    // it returns a prefix of the writer's sequence
    assert!(first.is_none() || (j < l2 && first == Some(d[j])));
    if j < l1 {
        assert!(first == Some(d[j]));
    }
    // any later reader: every index below the length it observes is readable and correct
    GROW_TO.store(usize::MAX, Ordering::Relaxed);
    // (with an empty source the empty initial snapshot is still valid and the hook is not reached)
    let n = cv.len();
    assert!(n == l2 || (l1 == 0 && n == 0));
    let k: usize = kani::any();
    kani::assume(k < MN);
    let second = cv.collect_one_at(k);
    assert!(second == if k < n { Some(d[k]) } else { None }, "reader observed a length whose elements are not readable");
    kani::cover!(true, "both readers completed");
    core::mem::forget(cv);
}

fn agree_body(n: usize, n2: usize) {
    let data: [u32; MN] = kani::any();
    let src = Mock::<usize, u32>::new(data, n);
    let d = data;
    let cv = CachedVec::wrap(src);
    let from: usize = kani::any();
    let to: usize = kani::any();
    kani::assume((from <= 5 || from == usize::MAX) && (to <= 5 || to == usize::MAX));
    let cto = if to < n { to } else { n };
    let cnt = if from < cto { cto - from } else { 0 };
    let k: usize = kani::any();
    kani::assume(k < MN);
    let got = cv.fold_range_at(from, to, Out::<u32>::new(), |mut o, v| {
        o.push(v);
        o
    });
    assert!(got.n == cnt);
    if k < cnt {
        assert!(got.v[k] == Some(d[from + k]));
    }
    assert!(cv.collect_one_at(k) == if k < n { Some(d[k]) } else { None });
    // the source shrinks: cached contents must not outlive it
    cv.inner.set_len(n2);
    assert!(cv.collect_one_at(k) == if k < n2 { Some(d[k]) } else { None });
    kani::cover!(true, "reads completed");
    core::mem::forget(cv);
}

macro_rules! cached {
    ($body:ident; $( $name:ident = ($a:expr, $b:expr); )*) => {
        $(
            #[kani::proof]
            #[kani::unwind(7)]
            fn $name() {
                $body($a, $b);
            }
        )*
    };
}
cached! { race_body;
    c09_cached_race_1_3 = (1, 3);
    c09_cached_race_0_2 = (0, 2);
    c09_cached_race_2_2 = (2, 2);
}
cached! { agree_body;
    c08_cached_agree_3_1 = (3, 1);
    c08_cached_agree_2_2 = (2, 2);
    c08_cached_agree_0_0 = (0, 0);
}
