//! In-memory mock sources: a `ReadableVec` over a fixed array with a (mutable) length.
//! The mock is the *reference*: harnesses compare what vecdb's generic code returns with what
//! plain loops over `data[..len]` give.
use std::sync::atomic::{AtomicUsize, Ordering};

use crate::{AnyVec, PrintableIndex, ReadableVec, VecIndex, VecValue, Version};

pub const MN: usize = 4;

/// Second index type (to exercise sources indexed differently from the lazy vector).
#[derive(Debug, Default, Clone, Copy, PartialEq, Eq, PartialOrd, Ord)]
pub struct J(pub usize);
impl From<usize> for J {
    fn from(v: usize) -> Self {
        J(v)
    }
}
impl From<J> for usize {
    fn from(v: J) -> usize {
        v.0
    }
}
impl core::ops::Add<usize> for J {
    type Output = J;
    fn add(self, r: usize) -> J {
        J(self.0 + r)
    }
}
impl PrintableIndex for J {
    fn to_string() -> &'static str {
        "j"
    }
    fn to_possible_strings() -> &'static [&'static str] {
        &["j"]
    }
}

pub struct Mock<I, T> {
    pub data: [T; MN],
    pub len: AtomicUsize,
    pub version: Version,
    pub _i: core::marker::PhantomData<I>,
}
impl<I, T: Clone> Clone for Mock<I, T> {
    fn clone(&self) -> Self {
        Self {
            data: self.data.clone(),
            len: AtomicUsize::new(self.len.load(Ordering::Relaxed)),
            version: self.version,
            _i: core::marker::PhantomData,
        }
    }
}
impl<I, T: Copy> Mock<I, T> {
    pub fn new(data: [T; MN], len: usize) -> Self {
        assert!(len <= MN);
        Self { data, len: AtomicUsize::new(len), version: Version::ZERO, _i: core::marker::PhantomData }
    }
    pub fn set_len(&self, len: usize) {
        self.len.store(len, Ordering::Relaxed)
    }
    pub fn n(&self) -> usize {
        self.len.load(Ordering::Relaxed)
    }
}
#[cfg(kani)]
impl<I, T: Copy + kani::Arbitrary> Mock<I, T> {
    /// arbitrary contents, arbitrary length <= maxlen
    pub fn any(maxlen: usize) -> Self {
        let data: [T; MN] = kani::any();
        let len: usize = kani::any();
        kani::assume(len <= maxlen && len <= MN);
        Self::new(data, len)
    }
}

impl<I: VecIndex, T: VecValue + Copy> AnyVec for Mock<I, T> {
    fn version(&self) -> Version {
        self.version
    }
    fn name(&self) -> &str {
        "mock"
    }
    fn len(&self) -> usize {
        self.n()
    }
    fn index_type_to_string(&self) -> &'static str {
        I::to_string()
    }
    fn region_names(&self) -> Vec<String> {
        Vec::new()
    }
    fn value_type_to_size_of(&self) -> usize {
        core::mem::size_of::<T>()
    }
    fn value_type_to_string(&self) -> &'static str {
        "t"
    }
}

impl<I: VecIndex, T: VecValue + Copy> ReadableVec<I, T> for Mock<I, T> {
    fn read_into_at(&self, from: usize, to: usize, buf: &mut Vec<T>) {
        let to = to.min(self.n());
        let mut i = from;
        while i < to {
            buf.push(self.data[i]);
            i += 1;
        }
    }
    fn for_each_range_dyn_at(&self, from: usize, to: usize, f: &mut dyn FnMut(T)) {
        let to = to.min(self.n());
        let mut i = from;
        while i < to {
            f(self.data[i]);
            i += 1;
        }
    }
    fn fold_range_at<B, F: FnMut(B, T) -> B>(&self, from: usize, to: usize, init: B, mut f: F) -> B {
        let to = to.min(self.n());
        let mut acc = init;
        let mut i = from;
        while i < to {
            acc = f(acc, self.data[i]);
            i += 1;
        }
        acc
    }
    fn try_fold_range_at<B, E, F: FnMut(B, T) -> Result<B, E>>(
        &self,
        from: usize,
        to: usize,
        init: B,
        mut f: F,
    ) -> Result<B, E> {
        let to = to.min(self.n());
        let mut acc = init;
        let mut i = from;
        while i < to {
            acc = f(acc, self.data[i])?;
            i += 1;
        }
        Ok(acc)
    }
}

/// Fixed-capacity output recorder (avoids Vec in harness-side oracles).
pub struct Out<T> {
    pub v: [Option<T>; 8],
    pub n: usize,
}
impl<T: Copy> Out<T> {
    pub fn new() -> Self {
        Self { v: [None; 8], n: 0 }
    }
    pub fn push(&mut self, x: T) {
        assert!(self.n < 8);
        self.v[self.n] = Some(x);
        self.n += 1;
    }
    pub fn from_vec(v: &Vec<T>) -> Self {
        let mut o = Self::new();
        let mut i = 0;
        while i < 8 {
            if i < v.len() {
                o.push(v[i]);
            }
            i += 1;
        }
        assert!(v.len() <= 8);
        o
    }
}

impl<I: VecIndex, T: VecValue + Copy> crate::TypedVec for Mock<I, T> {
    type I = I;
    type T = T;
}
