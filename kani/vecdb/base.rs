//! Mounted as a child of `base`: change-record parser harnesses (C16c / C17).
use super::*;
use crate::verif_root::stubs;
use crate::{Bytes, Error, Stamp};

pub(crate) const REC: usize = 52;

/// parse_change_data on an arbitrary byte string of arbitrary length <= REC (subsumes truncation at
/// every offset and overwritten length fields): Err, or a ChangeData whose vectors fit in the
/// input; no panic, no overflow, allocations bounded by the input (the allocation stubs assert it).
#[kani::proof]
#[kani::unwind(9)]
#[kani::stub(alloc::fmt::format, stubs::format_stub)]
#[kani::stub(std::vec::Vec::<T>::with_capacity, stubs::with_capacity_stub)]
#[kani::stub(std::vec::Vec::<T>::reserve, stubs::reserve_stub)]
fn c16_parse_change_data_any_bytes() {
    let raw: [u8; REC] = kani::any();
    let n: usize = kani::any();
    kani::assume(n <= REC);
    let mut c = ChangeCursor::new(&raw[..n]);
    let r = ReadWriteBaseVec::<usize, u32>::parse_change_data(&mut c, 4, |b| u32::from_bytes(b));
    match &r {
        Ok(d) => {
            // sizes are bounded by the input
            assert!(32 + 4 * d.truncated_values.len() + 8 + 4 * d.prev_pushed.len() + 8 <= n);
            assert!(d.truncated_start <= d.prev_stored_len);
            assert!(d.prev_stored_len - d.truncated_start == d.truncated_values.len());
            // echo of the fields
            assert!(u64::from(d.prev_stamp) == u64::from_le_bytes(raw[0..8].try_into().unwrap()));
            assert!(d.prev_stored_len as u64 == u64::from_le_bytes(raw[8..16].try_into().unwrap()));
            if d.truncated_values.len() > 0 {
                assert!(d.truncated_values[0] == u32::from_le_bytes(raw[32..36].try_into().unwrap()));
            }
            kani::cover!(d.truncated_values.len() == 1 && d.prev_pushed.len() == 1, "record with truncated and pushed values");
            kani::cover!(d.truncated_values.len() == 2, "two truncated values");
        }
        Err(e) => {
            assert!(matches!(e, Error::WrongLength { .. } | Error::Overflow | Error::Underflow));
            kani::cover!(matches!(e, Error::Overflow), "count * size overflow rejected");
            kani::cover!(matches!(e, Error::Underflow), "truncated_count > prev_stored_len rejected");
            kani::cover!(matches!(e, Error::WrongLength { .. }) && n >= 48, "length field beyond input rejected");
        }
    }
    core::mem::forget(r);
}

/// ChangeCursor primitives with symbolic 64-bit counts: checked_mul / checked_add guard every read
#[kani::proof]
#[kani::unwind(6)]
#[kani::stub(alloc::fmt::format, stubs::format_stub)]
#[kani::stub(std::vec::Vec::<T>::with_capacity, stubs::with_capacity_stub)]
#[kani::stub(std::vec::Vec::<T>::reserve, stubs::reserve_stub)]
fn c17_change_cursor_bounds() {
    let raw: [u8; 16] = kani::any();
    let n: usize = kani::any();
    kani::assume(n <= 16);
    let mut c = ChangeCursor::new(&raw[..n]);
    let skip: usize = kani::any();
    let r0 = c.skip(skip);
    if r0.is_ok() {
        assert!(skip <= n);
    } else {
        assert!(skip > n);
    }
    let count: usize = kani::any();
    let size: usize = kani::any();
    kani::assume(size == 4 || size == 8 || size == 16 || size == usize::MAX / 2);
    let r = c.read_values(count, size, |b| Ok::<u8, Error>(b[0]));
    match &r {
        Ok(v) => {
            assert!(r0.is_ok() || true);
            assert!(v.len() == count);
            assert!(count.checked_mul(size).is_some());
        }
        Err(_) => {}
    }
    kani::cover!(r.is_ok() && count == 2, "two values read");
    kani::cover!(r.is_err() && count.checked_mul(size).is_none(), "overflowing count rejected");
    core::mem::forget((r0, r));
}

// ---- builders for contract-mode vectors (private fields of base types) ----
use std::marker::PhantomData;
use std::sync::Arc;

/// Vec of concrete capacity 4 filled through raw writes (no Vec::push: std's grow path is what
/// makes state builders explode).
pub(crate) fn vec4<T: Copy>(vals: &[T; 4], n: usize) -> Vec<T> {
    assert!(n <= 4);
    let mut v: Vec<T> = Vec::with_capacity(4);
    let p = v.as_mut_ptr();
    let mut i = 0;
    while i < 4 {
        if i < n {
            unsafe { p.add(i).write(vals[i]) };
        }
        i += 1;
    }
    unsafe { v.set_len(n) };
    v
}

pub(crate) fn mk_base<I, T: Copy>(
    region: rawdb::Region,
    header: Header,
    stored_len: usize,
    pushed: Vec<T>,
    prev_pushed: Vec<T>,
    prev_stored_len: usize,
    saved_stamped_changes: u16,
) -> ReadWriteBaseVec<I, T> {
    ReadWriteBaseVec {
        read_only: ReadOnlyBaseVec {
            region,
            stored_len: SharedLen::new(stored_len),
            name: Arc::from("v"),
            header,
            phantom: PhantomData,
        },
        pushed: WithPrev { current: pushed, previous: prev_pushed },
        previous_stored_len: prev_stored_len,
        saved_stamped_changes,
    }
}
pub(crate) fn with_prev<T>(current: T, previous: T) -> WithPrev<T> {
    WithPrev { current, previous }
}
