//! Mounted as a child of `base`: change-record parser harnesses (C16c / C17).
use super::*;
use crate::verif_root::stubs;
use crate::{Bytes, Error, Stamp};

pub(crate) const REC: usize = 52;

/// parse_change_data on an arbitrary byte string of arbitrary length <= REC (subsumes truncation at
/// every offset and overwritten length fields): Err, or a ChangeData whose vectors fit in the
/// input; no panic, no overflow, allocations bounded by the input (the allocation stubs assert it).
#[kani::proof]
#[kani::unwind(9)]
#[kani::stub(alloc::fmt::format, stubs::format_stub)]
#[kani::stub(std::vec::Vec::<T>::with_capacity, stubs::with_capacity_stub)]
#[kani::stub(std::vec::Vec::<T>::reserve, stubs::reserve_stub)]
fn c16_parse_change_data_any_bytes() {
    let raw: [u8; REC] = kani::any();
    let n: usize = kani::any();
    kani::assume(n <= REC);
    let mut c = ChangeCursor::new(&raw[..n]);
    let r = ReadWriteBaseVec::<usize, u32>::parse_change_data(&mut c, 4, |b| u32::from_bytes(b));
    match &r {
        Ok(d) => {
            // sizes are bounded by the input
            assert!(32 + 4 * d.truncated_values.len() + 8 + 4 * d.prev_pushed.len() + 8 <= n);
            assert!(d.truncated_start <= d.prev_stored_len);
            assert!(d.prev_stored_len - d.truncated_start == d.truncated_values.len());
            // echo of the fields
            assert!(u64::from(d.prev_stamp) == u64::from_le_bytes(raw[0..8].try_into().unwrap()));
            assert!(d.prev_stored_len as u64 == u64::from_le_bytes(raw[8..16].try_into().unwrap()));
            if d.truncated_values.len() > 0 {
                assert!(d.truncated_values[0] == u32::from_le_bytes(raw[32..36].try_into().unwrap()));
            }
            kani::cover!(d.truncated_values.len() == 1 && d.prev_pushed.len() == 1, "record with truncated and pushed values");
            kani::cover!(d.truncated_values.len() == 2, "two truncated values");
        }
        Err(e) => {
            assert!(matches!(e, Error::WrongLength { .. } | Error::Overflow | Error::Underflow));
            kani::cover!(matches!(e, Error::Overflow), "count * size overflow rejected");
            kani::cover!(matches!(e, Error::Underflow), "truncated_count > prev_stored_len rejected");
            kani::cover!(matches!(e, Error::WrongLength { .. }) && n >= 48, "length field beyond input rejected");
        }
    }
    core::mem::forget(r);
}

/// ChangeCursor primitives with symbolic 64-bit counts: checked_mul / checked_add guard every read
#[kani::proof]
#[kani::unwind(6)]
#[kani::stub(alloc::fmt::format, stubs::format_stub)]
#[kani::stub(std::vec::Vec::<T>::with_capacity, stubs::with_capacity_stub)]
#[kani::stub(std::vec::Vec::<T>::reserve, stubs::reserve_stub)]
fn c17_change_cursor_bounds() {
    let raw: [u8; 16] = kani::any();
    let n: usize = kani::any();
    kani::assume(n <= 16);
    let mut c = ChangeCursor::new(&raw[..n]);
    let skip: usize = kani::any();
    let r0 = c.skip(skip);
    if r0.is_ok() {
        assert!(skip <= n);
    } else {
        assert!(skip > n);
    }
    let count: usize = kani::any();
    let size: usize = kani::any();
    kani::assume(size == 4 || size == 8 || size == 16 || size == usize::MAX / 2);
    let r = c.read_values(count, size, |b| Ok::<u32, Error>(b[0] as u32));
    match &r {
        Ok(v) => {
            assert!(r0.is_ok() || true);
            assert!(v.len() == count);
            assert!(count.checked_mul(size).is_some());
        }
        Err(_) => {}
    }
    kani::cover!(r.is_ok() && count == 2, "two values read");
    kani::cover!(r.is_err() && count.checked_mul(size).is_none(), "overflowing count rejected");
    core::mem::forget((r0, r));
}

// ---- builders for contract-mode vectors (private fields of base types) ----
use std::marker::PhantomData;
use std::sync::Arc;

/// Vec of concrete capacity 4 filled through raw writes (no Vec::push: std's grow path is what
/// makes state builders explode).
pub(crate) fn vec4<T: Copy>(vals: &[T; 4], n: usize) -> Vec<T> {
    assert!(n <= 4);
    let mut v: Vec<T> = Vec::with_capacity(4);
    let p = v.as_mut_ptr();
    let mut i = 0;
    while i < 4 {
        if i < n {
            unsafe { p.add(i).write(vals[i]) };
        }
        i += 1;
    }
    unsafe { v.set_len(n) };
    v
}

pub(crate) fn mk_base<I, T: Copy>(
    region: rawdb::Region,
    header: Header,
    stored_len: usize,
    pushed: Vec<T>,
    prev_pushed: Vec<T>,
    prev_stored_len: usize,
    saved_stamped_changes: u16,
) -> ReadWriteBaseVec<I, T> {
    ReadWriteBaseVec {
        read_only: ReadOnlyBaseVec {
            region,
            stored_len: SharedLen::new(stored_len),
            name: Arc::from("v"),
            header,
            phantom: PhantomData,
        },
        pushed: WithPrev { current: pushed, previous: prev_pushed },
        previous_stored_len: prev_stored_len,
        saved_stamped_changes,
    }
}
pub(crate) fn with_prev<T>(current: T, previous: T) -> WithPrev<T> {
    WithPrev { current, previous }
}

// ---------------------------------------------------------------------------------------------
// Change-record parser with *concrete element counts* (symbolic-length collects exhaust memory in
// symbolic execution): record = stamp, prev_stored_len, stored_len, truncated_count, truncated
// values, prev_pushed_len, prev_pushed values, pushed_len, pushed values.  Symbolic: every value
// and scalar field, and the length `n` at which the record is cut off (truncation at every offset).
fn build_record(tc: usize, pp: usize, pu: usize, prev_stored: u64) -> ([u8; 72], usize) {
    let mut b = [0u8; 72];
    let vals: [u8; 72] = kani::any();
    let mut o = 0;
    let put = |b: &mut [u8; 72], o: &mut usize, x: u64| {
        b[*o..*o + 8].copy_from_slice(&x.to_le_bytes());
        *o += 8;
    };
    put(&mut b, &mut o, kani::any()); // stamp
    put(&mut b, &mut o, prev_stored);
    put(&mut b, &mut o, kani::any()); // stored_len (ignored by the parser)
    put(&mut b, &mut o, tc as u64);
    let mut i = 0;
    while i < 4 * tc { b[o + i] = vals[o + i]; i += 1; }
    o += 4 * tc;
    put(&mut b, &mut o, pp as u64);
    let mut i = 0;
    while i < 4 * pp { b[o + i] = vals[o + i]; i += 1; }
    o += 4 * pp;
    put(&mut b, &mut o, pu as u64);
    let mut i = 0;
    while i < 4 * pu { b[o + i] = vals[o + i]; i += 1; }
    o += 4 * pu;
    (b, o)
}

fn parse_body(tc: usize, pp: usize, pu: usize) {
    let prev_stored: u64 = kani::any();
    let (rec, full) = build_record(tc, pp, pu, prev_stored);
    let n: usize = kani::any();
    kani::assume(n <= full);
    let mut c = ChangeCursor::new(&rec[..n]);
    let r = ReadWriteBaseVec::<usize, u32>::parse_change_data(&mut c, 4, |b| u32::from_bytes(b));
    match &r {
        Ok(d) => {
            // only the complete record (or one cut inside the ignored trailing pushed values) parses
            assert!(n == full);
            assert!(prev_stored >= tc as u64);
            assert!(d.truncated_values.len() == tc && d.prev_pushed.len() == pp);
            assert!(d.prev_stored_len as u64 == prev_stored && d.truncated_start as u64 == prev_stored - tc as u64);
            if tc > 0 {
                assert!(d.truncated_values[0] == u32::from_le_bytes(rec[32..36].try_into().unwrap()));
            }
            if pp > 0 {
                let o = 32 + 4 * tc + 8;
                assert!(d.prev_pushed[0] == u32::from_le_bytes(rec[o..o + 4].try_into().unwrap()));
            }
        }
        Err(e) => {
            // a truncated record, or a truncated count exceeding the previous length: refused
            assert!(n < full || prev_stored < tc as u64);
            assert!(matches!(e, Error::WrongLength { .. } | Error::Underflow | Error::Overflow));
        }
    }
    kani::cover!(r.is_ok(), "complete record parsed");
    kani::cover!(r.is_err() && n + 1 == full, "record cut one byte short refused");
    core::mem::forget(r);
}

/// One length field overwritten with an out-of-range value: refused without allocating for it
/// (the allocation stubs panic like the real ones on capacity overflow and assert the bound).
fn badcount_body(which: u8) {
    let (mut rec, full) = build_record(1, 1, 0, 5);
    let bad: u64 = kani::any();
    kani::assume(bad > 64);
    let off = match which { 0 => 24, 1 => 32 + 4, _ => 32 + 4 + 8 + 4 };
    rec[off..off + 8].copy_from_slice(&bad.to_le_bytes());
    let mut c = ChangeCursor::new(&rec[..full]);
    let r = ReadWriteBaseVec::<usize, u32>::parse_change_data(&mut c, 4, |b| u32::from_bytes(b));
    assert!(r.is_err());
    kani::cover!(bad == u64::MAX, "count = u64::MAX");
    kani::cover!(bad == (1u64 << 62), "count whose byte size overflows");
    core::mem::forget(r);
}

macro_rules! parse_h {
    ($( $name:ident = $body:ident($($a:expr),*); )*) => {
        $(
            #[kani::proof]
            #[kani::unwind(13)]
            #[kani::stub(alloc::fmt::format, stubs::format_stub)]
            #[kani::stub(std::vec::Vec::<T>::with_capacity, stubs::with_capacity_stub)]
            #[kani::stub(std::vec::Vec::<T>::reserve, stubs::reserve_stub)]
            fn $name() {
                $body($($a),*);
            }
        )*
    };
}
parse_h! {
    c16_parse_t0p0 = parse_body(0, 0, 0);
    c16_parse_t1p0 = parse_body(1, 0, 1);
    c16_parse_t0p2 = parse_body(0, 2, 0);
    c16_parse_t2p1 = parse_body(2, 1, 1);
    c16_parse_bad_truncated_count = badcount_body(0);
    c16_parse_bad_prev_pushed_len = badcount_body(1);
    c16_parse_bad_pushed_len = badcount_body(2);
}
