//! Mounted as a child of `region`: builders/observers that need RegionInner's private fields.
#![allow(dead_code)]
use super::*;
use anydb_verif_platform::sync::Weak;

/// A region that belongs to no database (dangling weak handle) - for Layout-level harnesses.
pub(crate) fn mk_detached(index: usize, meta: RegionMetadata) -> Region {
    Region(Arc::new(RegionInner {
        db: WeakDatabase(Weak::new()),
        index,
        meta: RwLock::new(meta),
        dirty_bounds: Mutex::new((usize::MAX, 0)),
    }))
}

/// A region of database `db` with arbitrary metadata and dirty bounds.
pub(crate) fn mk_in_db(db: &Database, index: usize, meta: RegionMetadata, dirty: (usize, usize)) -> Region {
    Region(Arc::new(RegionInner {
        db: db.weak_clone(),
        index,
        meta: RwLock::new(meta),
        dirty_bounds: Mutex::new(dirty),
    }))
}

/// (start, len, reserved) without taking the meta lock.
pub(crate) fn geom(r: &Region) -> (usize, usize, usize) {
    let m = r.0.meta.verif_peek();
    (m.start(), m.len(), m.reserved())
}
pub(crate) fn meta_lock_id(r: &Region) -> usize {
    r.0.meta.verif_id()
}
pub(crate) fn dirty_lock_id(r: &Region) -> usize {
    r.0.dirty_bounds.verif_id()
}
pub(crate) fn dirty_peek(r: &Region) -> (usize, usize) {
    *r.0.dirty_bounds.verif_peek()
}
pub(crate) fn strong(r: &Region) -> usize {
    Arc::strong_count(&r.0)
}
pub(crate) fn set_strong(r: &Region, n: usize) {
    Arc::verif_set_strong(&r.0, n)
}

pub(crate) fn set_geom(r: &Region, start: usize, len: usize, reserved: usize) {
    crate::region_metadata::verif_meta::set_geom(r.0.meta.verif_peek(), start, len, reserved);
}

/// The private `write_with` (what `write`, `write_at`, `truncate_write` forward to, verbatim).
pub(crate) fn call_write_with(r: &Region, data: &[u8], at: Option<usize>, truncate: bool) -> Result<()> {
    r.write_with(data, at, truncate)
}

impl Region {
    /// Model-only: metadata without locking.
    #[allow(clippy::mut_from_ref)]
    pub(crate) fn meta_mut_peek(&self) -> &mut RegionMetadata {
        self.0.meta.verif_peek()
    }
}
