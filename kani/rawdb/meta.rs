//! C17 (rawdb half): RegionMetadata codec.  Mounted as a child of `region_metadata`, so the
//! private fields and `to_bytes` are visible.
use super::*;
use crate::verif_root::stubs;

/// from_bytes on a fully symbolic 4096-byte slot: Err, or a value satisfying the validity rules.
/// Bound: id_len <= 8 or > 1024 (names of 9..=1024 bytes are outside: UTF-8 loop length).
#[kani::proof]
#[kani::unwind(9)]
#[kani::stub(alloc::fmt::format, stubs::format_stub)]
#[kani::stub(<[u8]>::to_vec, stubs::to_vec_stub)]
fn c17_meta_from_bytes_any_slot() {
    let bytes: [u8; SIZE_OF_REGION_METADATA] = kani::any();
    let id_len = u64::from_le_bytes(bytes[24..32].try_into().unwrap());
    kani::assume(id_len <= 4 || id_len > 1024);
    let r = RegionMetadata::from_bytes(&bytes);
    match &r {
        Ok(m) => {
            assert!(m.start % PAGE_SIZE == 0);
            assert!(m.reserved % PAGE_SIZE == 0);
            assert!(m.reserved >= PAGE_SIZE);
            assert!(m.len <= m.reserved);
            assert!(m.id.len() == id_len as usize);
            assert!(m.id.len() <= 1024);
            assert!(m.start as u64 == u64::from_le_bytes(bytes[0..8].try_into().unwrap()));
            assert!(m.len as u64 == u64::from_le_bytes(bytes[8..16].try_into().unwrap()));
            assert!(m.reserved as u64 == u64::from_le_bytes(bytes[16..24].try_into().unwrap()));
            kani::cover!(m.id.len() == 4, "accepts 4-byte id");
            kani::cover!(m.id.is_empty() && m.start != 0, "accepts empty id");
        }
        Err(_) => {
            kani::cover!(id_len > 1024, "rejects long id");
            kani::cover!(id_len <= 8, "rejects other");
        }
    }
    core::mem::forget(r);
}

/// Arbitrary-state constructor (no validation, caller supplies the invariant).
pub(crate) fn mk_meta(id: &str, start: usize, len: usize, reserved: usize, state: u8) -> RegionMetadata {
    let st = match state {
        0 => RegionState::new_clean(),
        1 => {
            let s = RegionState::new_clean();
            s.set_needs_flush();
            s
        }
        _ => RegionState::new_dirty(),
    };
    RegionMetadata { start, len, reserved, id: String::from(id), state: st }
}
pub(crate) fn state_of(m: &RegionMetadata) -> u8 {
    if m.state.is_clean() { 0 } else if m.state.needs_flush() { 1 } else { 2 }
}

pub(crate) fn set_geom(m: &mut RegionMetadata, start: usize, len: usize, reserved: usize) {
    m.start = start;
    m.len = len;
    m.reserved = reserved;
}

pub(crate) fn set_state(m: &mut RegionMetadata, st: u8) {
    match st {
        0 => m.state.set_is_clean(),
        1 => m.state.set_needs_flush(),
        _ => m.state.set_needs_write(),
    }
}

/// Round trip of the real encoder: from_bytes(to_bytes(m)) = m for every valid metadata with a
/// short name (all start/len/reserved values satisfying the validity rules).
#[kani::proof]
#[kani::unwind(6)]
#[kani::stub(alloc::fmt::format, stubs::format_stub)]
#[kani::stub(<[u8]>::to_vec, stubs::to_vec_stub)]
fn c17_meta_roundtrip_valid() {
    let start: usize = kani::any();
    let len: usize = kani::any();
    let reserved: usize = kani::any();
    kani::assume(start % PAGE_SIZE == 0 && reserved % PAGE_SIZE == 0 && reserved >= PAGE_SIZE && len <= reserved);
    let two = kani::any::<bool>();
    let m = mk_meta(if two { "ab" } else { "x" }, start, len, reserved, 0);
    let b = m.to_bytes();
    let r = RegionMetadata::from_bytes(&b);
    match &r {
        Ok(g) => {
            assert!(g.start == start && g.len == len && g.reserved == reserved);
            assert!(g.id.len() == if two { 2 } else { 1 });
            assert!(g.id.as_bytes()[0] == if two { b'a' } else { b'x' });
        }
        Err(_) => assert!(false, "valid metadata must decode"),
    }
    kani::cover!(start > (1usize << 40) && len == reserved, "large offsets, full region");
    core::mem::forget((r, m));
}

/// The longest legal name (1024 bytes) decodes; 1025 is rejected (structure only: ASCII content).
#[kani::proof]
#[kani::unwind(6)]
#[kani::stub(alloc::fmt::format, stubs::format_stub)]
#[kani::stub(<[u8]>::to_vec, stubs::to_vec_len_only_stub)]
#[kani::stub(std::string::String::from_utf8, stubs::from_utf8_trust_stub)]
fn c17_meta_name_length_limits() {
    let mut b = [b'a'; SIZE_OF_REGION_METADATA];
    let n: u64 = kani::any();
    kani::assume(n == 1024 || n == 1025 || n == 1023);
    b[0..8].copy_from_slice(&0u64.to_le_bytes());
    b[8..16].copy_from_slice(&0u64.to_le_bytes());
    b[16..24].copy_from_slice(&4096u64.to_le_bytes());
    b[24..32].copy_from_slice(&n.to_le_bytes());
    let r = RegionMetadata::from_bytes(&b);
    assert!(r.is_ok() == (n <= 1024));
    kani::cover!(n == 1024 && r.is_ok(), "1024-byte name accepted");
    core::mem::forget(r);
}
