//! Mounted at the end of rawdb/src/lib.rs (generated tree only).
#![allow(unused_imports, dead_code)]

#[path = "/verif/kani/common/stubs.rs"]
pub mod stubs;
