//! Mounted at the end of rawdb/src/lib.rs (generated tree only).
#![allow(unused_imports, dead_code)]
use super::*;

#[path = "/verif/kani/common/stubs.rs"]
pub mod stubs;
#[path = "/verif/kani/rawdb/world.rs"]
pub mod world;
#[path = "/verif/kani/rawdb/ops_write.rs"]
mod ops_write;
#[path = "/verif/kani/rawdb/ops_misc.rs"]
mod ops_misc;

use anydb_verif_platform::fs as pfs;
use anydb_verif_platform::mmap::MmapMut as PMmap;

/// A database object built directly (no open): ghost-mode data file of length `file_len`,
/// empty layout, empty regions table with room for `slots` metadata slots.
pub(crate) fn mk_db(file_len: usize, slots: usize) -> Database {
    pfs::state().files[pfs::DATA].len = file_len;
    Database(Arc::new(DatabaseInner {
        path: PathBuf::new(),
        name: String::new(),
        layout: RwLock::new(Layout::default()),
        regions: RwLock::new(crate::regions::verif_regions::mk_regions(slots)),
        mmap: RwLock::new(PMmap::verif_new(pfs::DATA, file_len)),
        file: RwLock::new(File::verif_new(pfs::DATA)),
        cached_file_len: AtomicUsize::new(file_len),
        bg_tasks: Mutex::new(Vec::new()),
        bg_sync: (Mutex::new(false), Condvar::new()),
    }))
}
pub(crate) fn layout_of(db: &Database) -> &mut Layout {
    db.0.layout.verif_peek()
}
pub(crate) fn regions_of(db: &Database) -> &mut Regions {
    db.0.regions.verif_peek()
}
pub(crate) fn mmap_len_of(db: &Database) -> usize {
    db.0.mmap.verif_peek().len()
}
pub(crate) fn lock_ids(db: &Database) -> [usize; 4] {
    [db.0.layout.verif_id(), db.0.regions.verif_id(), db.0.mmap.verif_id(), db.0.file.verif_id()]
}

/// Stub for `Database::sync_bg_tasks` (background tasks are outside every claim; the real body
/// drains a Vec<JoinHandle> whose drop glue CBMC cannot bound).
pub(crate) fn sync_bg_tasks_stub(_db: &Database) -> Result<()> {
    Ok(())
}

/// Public (Kani build only) helper for vecdb's storage model: a region that belongs to no database.
pub fn api_detached_region() -> Region {
    crate::region::verif_region::mk_detached(0, crate::region_metadata::verif_meta::mk_meta("m", 0, 0, PAGE_SIZE, 0))
}
