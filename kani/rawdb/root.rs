//! Mounted at the end of rawdb/src/lib.rs (generated tree only).
#![allow(unused_imports, dead_code)]
use super::*;

#[path = "/verif/kani/common/stubs.rs"]
pub mod stubs;
#[path = "/verif/kani/rawdb/world.rs"]
pub mod world;
#[path = "/verif/kani/rawdb/ops_write.rs"]
mod ops_write;
#[path = "/verif/kani/rawdb/ops_misc.rs"]
mod ops_misc;

use anydb_verif_platform::fs as pfs;
use anydb_verif_platform::mmap::MmapMut as PMmap;

/// A database object built directly (no open): ghost-mode data file of length `file_len`,
/// empty layout, empty regions table with room for `slots` metadata slots.
pub(crate) fn mk_db(file_len: usize, slots: usize) -> Database {
    pfs::state().files[pfs::DATA].len = file_len;
    Database(Arc::new(DatabaseInner {
        path: PathBuf::new(),
        name: String::new(),
        layout: RwLock::new(Layout::default()),
        regions: RwLock::new(crate::regions::verif_regions::mk_regions(slots)),
        mmap: RwLock::new(PMmap::verif_new(pfs::DATA, file_len)),
        file: RwLock::new(File::verif_new(pfs::DATA)),
        cached_file_len: AtomicUsize::new(file_len),
        bg_tasks: Mutex::new(Vec::new()),
        bg_sync: (Mutex::new(false), Condvar::new()),
    }))
}
pub(crate) fn layout_of(db: &Database) -> &mut Layout {
    db.0.layout.verif_peek()
}
pub(crate) fn regions_of(db: &Database) -> &mut Regions {
    db.0.regions.verif_peek()
}
pub(crate) fn mmap_len_of(db: &Database) -> usize {
    db.0.mmap.verif_peek().len()
}
pub(crate) fn lock_ids(db: &Database) -> [usize; 4] {
    [db.0.layout.verif_id(), db.0.regions.verif_id(), db.0.mmap.verif_id(), db.0.file.verif_id()]
}

/// Stub for `Database::sync_bg_tasks` (background tasks are outside every claim; the real body
/// drains a Vec<JoinHandle> whose drop glue CBMC cannot bound).
pub fn sync_bg_tasks_stub(_db: &Database) -> Result<()> {
    Ok(())
}

/// Public (Kani build only) helper for vecdb's storage model: a region that belongs to no database.
pub fn api_detached_region() -> Region {
    crate::region::verif_region::mk_detached(0, crate::region_metadata::verif_meta::mk_meta("m", 0, 0, PAGE_SIZE, 0))
}

/// Public (Kani build only): *contract mode* database for vecdb harnesses - one region at offset 0
/// of a tiny data file backed by `buf[..cap]` (bytes really stored), reserve = cap, content length
/// `region_len`; the allocator is cut (any layout lock acquisition is a reported bound violation).
pub fn api_contract_db(buf: *mut u8, cap: usize, region_len: usize) -> (Database, Region) {
    let f = &mut pfs::state().files[pfs::DATA];
    f.buf = buf;
    f.cap = cap;
    f.len = cap;
    let db = mk_db(cap, 2);
    let r = crate::region::verif_region::mk_in_db(
        &db, 0, crate::region_metadata::verif_meta::mk_meta("v", 0, region_len, cap, 0), (usize::MAX, 0));
    layout_of(&db).insert_region(0, &r);
    crate::regions::verif_regions::add(regions_of(&db), "v", &r, false);
    anydb_verif_platform::sync::set_cut(db.0.layout.verif_id());
    anydb_verif_platform::sync::set_cut_size(core::mem::size_of::<Layout>());
    (db, r)
}

/// Cut for vecdb contract-mode harnesses: the buffered file-IO scan back-end (only taken for
/// ranges above 1 GiB) is outside the claim; reaching it is a reported bound violation.
pub fn open_ro_cut(_r: &Region) -> Result<File> {
    assert!(false, "VERIF: bound exceeded: file-IO scan back-end reached");
    anydb_verif_platform::assume(false);
    Err(Error::RegionNotFound)
}

/// Contract-mode database whose single region is registered under `name` (import harnesses look
/// it up by name); see `api_contract_db`.
pub fn api_contract_db_named(buf: *mut u8, cap: usize, region_len: usize, name: &str) -> (Database, Region) {
    let f = &mut pfs::state().files[pfs::DATA];
    f.buf = buf;
    f.cap = cap;
    f.len = cap;
    let db = mk_db(cap, 2);
    let r = crate::region::verif_region::mk_in_db(
        &db, 0, crate::region_metadata::verif_meta::mk_meta(name, 0, region_len, cap, 0), (usize::MAX, 0));
    layout_of(&db).insert_region(0, &r);
    crate::regions::verif_regions::add(regions_of(&db), name, &r, true);
    anydb_verif_platform::sync::set_cut(db.0.layout.verif_id());
    anydb_verif_platform::sync::set_cut_size(core::mem::size_of::<Layout>());
    unsafe { CONTRACT_REGION = Some(r.clone()) };
    (db, r)
}

static mut CONTRACT_REGION: Option<Region> = None;
static mut CONTRACT_REGION2: Option<Region> = None;
static mut CONTRACT_CREATES: usize = 0;
/// Regions handed out by `create_region_if_needed_stub`: `a` for the first request, `b` (if any) for later ones.
pub fn set_contract_regions(a: &Region, b: Option<&Region>) {
    unsafe {
        CONTRACT_REGION = Some(a.clone());
        CONTRACT_REGION2 = b.cloned();
        CONTRACT_CREATES = 0;
        CONTRACT_REMOVED = false;
    }
}
/// Stub for `Database::create_region_if_needed` in import harnesses: "the vector's region exists"
/// (possibly with length 0); name resolution is not part of what those harnesses decide.
#[allow(static_mut_refs)]
pub fn create_region_if_needed_stub(_db: &Database, _id: &str) -> Result<Region> {
    anydb_verif_platform::ghost::log(anydb_verif_platform::ghost::K::Pause, 78, 0, 0);
    unsafe {
        if CONTRACT_REMOVED {
            return Err(Error::RegionAlreadyExists);
        }
        let first = CONTRACT_CREATES == 0;
        CONTRACT_CREATES += 1;
        if first || CONTRACT_REGION2.is_none() {
            Ok(CONTRACT_REGION.as_ref().unwrap().clone())
        } else {
            Ok(CONTRACT_REGION2.as_ref().unwrap().clone())
        }
    }
}
/// Stub for `Database::get_region` in import harnesses: no auxiliary (holes) region exists.
pub fn get_region_none_stub(_db: &Database, _id: &str) -> Option<Region> {
    None
}

/// Stub for `Database::remove_region_if_exists` in import harnesses: records the request as a ghost
/// event (Pause 77) instead of running the allocator.
pub fn remove_region_if_exists_stub(_db: &Database, _id: &str) -> Result<()> {
    anydb_verif_platform::ghost::log(anydb_verif_platform::ghost::K::Pause, 77, 0, 0);
    unsafe { CONTRACT_REMOVED = true };
    Ok(())
}
/// Set by the removal stub: the re-creation that follows a discard is cut (the create stub fails), so
/// that a forced-import harness decides *whether* data is discarded without paying for a second import.
static mut CONTRACT_REMOVED: bool = false;
pub fn ghost_removals() -> usize {
    let l = anydb_verif_platform::ghost::get();
    let mut n = 0;
    anydb_verif_platform::unroll20!(i, {
        if i < l.n && l.k[i] == anydb_verif_platform::ghost::K::Pause && l.a[i] == 77 {
            n += 1;
        }
    });
    n
}
/// Number of `create_region_if_needed` requests seen by the stub above.
pub fn ghost_creates() -> usize {
    let l = anydb_verif_platform::ghost::get();
    let mut n = 0;
    anydb_verif_platform::unroll20!(i, {
        if i < l.n && l.k[i] == anydb_verif_platform::ghost::K::Pause && l.a[i] == 78 {
            n += 1;
        }
    });
    n
}
pub fn ghost_clear() {
    anydb_verif_platform::ghost::clear();
}
pub fn ghost_writes() -> usize {
    anydb_verif_platform::ghost::count(anydb_verif_platform::ghost::K::Write)
}

/// Contract mode with two regions in one tiny file: A at offset 0 (reserve `cap_a`, length `len_a`)
/// and B at offset `cap_a` (reserve `cap_b`, length `len_b`).  Used for compressed vectors (data
/// region + page-index region).  Reserves are not page multiples: only the fits-in-reserve path of
/// write_with is in scope (allocator cut).
pub fn api_contract_db2(buf: *mut u8, cap_a: usize, len_a: usize, cap_b: usize, len_b: usize) -> (Database, Region, Region) {
    let f = &mut pfs::state().files[pfs::DATA];
    f.buf = buf;
    f.cap = cap_a + cap_b;
    f.len = cap_a + cap_b;
    let db = mk_db(cap_a + cap_b, 2);
    let a = crate::region::verif_region::mk_in_db(
        &db, 0, crate::region_metadata::verif_meta::mk_meta("a", 0, len_a, cap_a, 0), (usize::MAX, 0));
    let b = crate::region::verif_region::mk_in_db(
        &db, 1, crate::region_metadata::verif_meta::mk_meta("b", cap_a, len_b, cap_b, 0), (usize::MAX, 0));
    layout_of(&db).insert_region(0, &a);
    layout_of(&db).insert_region(cap_a, &b);
    crate::regions::verif_regions::add(regions_of(&db), "a", &a, false);
    crate::regions::verif_regions::add(regions_of(&db), "b", &b, false);
    anydb_verif_platform::sync::set_cut(db.0.layout.verif_id());
    anydb_verif_platform::sync::set_cut_size(core::mem::size_of::<Layout>());
    (db, a, b)
}
