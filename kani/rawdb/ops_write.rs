//! Level 2 (monolithic): the real `Region::{write, write_at, truncate_write}` (-> write_with ->
//! real Layout, real RegionMetadata, real Regions::write_at, real Database::{write,copy,
//! set_min_len}) from an arbitrary INV world of a concrete shape.  Decides, per step:
//!   C01 placement algebra + frame (which bytes are written / copied, nobody else's extent touched)
//!   C02 INV re-established, best-fit reuse
//!   C13 a refused write (position beyond the end / file growth failure) has no effect
use super::world::*;
use super::*;
use crate::layout::verif_layout::{Kind, classify};
use crate::region::verif_region as vr;
use crate::region_metadata::verif_meta as vm;
use anydb_verif_platform::fs as pfs;
use anydb_verif_platform::ghost::{self, K};

static BUF: [u8; 6 * 4096] = [0u8; 6 * 4096];

fn any_addr() -> usize {
    let w: usize = kani::any();
    kani::assume(w < 64 * PAGE_SIZE);
    w
}

pub(crate) fn body_write<const N: usize>(kinds: [Kind; N], pages: [u8; N], x: usize) {
    let wd = world_pages(kinds, pages, false);
    let r = wd.regions[x].clone().unwrap();
    let idx = r.index();
    let (start, len, reserved) = vr::geom(&r);
    let old_end = layout_of(&wd.db).len();
    // mode 0 = write (append), 1 = write_at, 2 = truncate_write: one call of the private
    // write_with with symbolic (at, truncate) covers the three public entry points in one pass
    let mode: u8 = kani::any();
    kani::assume(mode <= 2);
    let at: usize = kani::any();
    kani::assume(at <= reserved + 1);
    let dlen: usize = kani::any();
    kani::assume(dlen <= 5 * PAGE_SIZE);
    let data = &BUF[..dlen];
    let fail = kani::any::<bool>();
    pfs::state().fail_set_len = fail;
    ghost::clear();
    let w = any_addr();
    let before = classify(layout_of(&wd.db), w);
    let file_before = wd.db.file_len();

    let res = vr::call_write_with(&r, data, if mode == 0 { None } else { Some(at) }, mode == 2);

    let after = classify(layout_of(&wd.db), w);
    let (ns, nl, nr) = vr::geom(&r);
    let refused_pos = mode != 0 && at > len;
    let write_offset = if mode == 0 { len } else { at };
    let want_len = match mode {
        0 => len + dlen,
        1 => if at + dlen > len { at + dlen } else { len },
        _ => at + dlen,
    };
    match &res {
        Err(_) => {
            // refusals: position beyond the end, or the file could not be grown
            assert!(refused_pos || fail);
            // C13: no effect on anything observable
            assert!((ns, nl, nr) == (start, len, reserved));
            assert!(after == before);
            assert!(layout_of(&wd.db).len() == old_end);
            assert!(ghost::count(K::Write) == 0 && ghost::count(K::Copy) == 0);
            assert!(wd.db.file_len() == file_before);
            kani::cover!(refused_pos, "write beyond the end refused");
            kani::cover!(fail && !refused_pos, "file growth failure");
        }
        Ok(()) => {
            assert!(!refused_pos);
            // ---- C01 placement algebra ----
            assert!(nl == want_len);
            assert!(nl <= nr);
            if want_len <= reserved {
                assert!(nr == reserved && ns == start);
            } else {
                // smallest power-of-two multiple of the old reserve that fits
                assert!(nr > reserved && nr / 2 < want_len);
                assert!(nr % reserved == 0);
            }
            let relocated = ns != start;
            // data: exactly one write of the caller's bytes at new_start + offset
            let mut nwrite = 0;
            let mut ncopy = 0;
            let mut slot_ok = false;
            anydb_verif_platform::unroll20!(i, {
                let l = ghost::get();
                if i < l.n {
                    if l.k[i] == K::Write && l.a[i] == pfs::DATA {
                        nwrite += 1;
                        assert!(l.b[i] == ns + write_offset && l.c[i] == dlen);
                    }
                    if l.k[i] == K::Copy {
                        ncopy += 1;
                        // old bytes [0, copy_len) move from the old to the new extent
                        let copy_len = if mode == 2 { write_offset } else { len };
                        assert!(relocated);
                        assert!(l.a[i] == start && l.b[i] == ns && l.c[i] == copy_len);
                        // the copy precedes the data write
                        assert!(nwrite == 0);
                    }
                    if l.k[i] == K::Write && l.a[i] == pfs::REGIONS {
                        // metadata slot of this region, whole slot, final values
                        assert!(l.b[i] == idx * 4096 && l.c[i] == 4096);
                        slot_ok = l.x[i][0] == ns as u64 && l.x[i][1] == nl as u64 && l.x[i][2] == nr as u64;
                        // slot is written after the data
                        assert!(nwrite == 1);
                    }
                }
            });
            assert!(nwrite == 1);
            if relocated {
                let copy_len = if mode == 2 { write_offset } else { len };
                assert!(ncopy == if copy_len > 0 { 1 } else { 0 });
            } else {
                assert!(ncopy == 0);
            }
            if (ns, nl, nr) != (start, len, reserved) {
                assert!(slot_ok);
            }
            if (ns, nl, nr) != (start, len, reserved) {
                assert!(vm::state_of(&*r.meta()) == 1, "changed metadata must be written and await flush");
            }
            // ---- frame: nobody else's extent is touched, nobody else's geometry changes ----
            let mut j = 0;
            while j < N {
                if j != x {
                    if let Some(o) = &wd.regions[j] {
                        let (os, ol, or) = vr::geom(o);
                        assert!(os == wd.starts[j] && or == wd.sizes[j] && ol == wd.lens[j]);
                        assert!(!ghost::touches(pfs::DATA, os, os + or));
                    }
                }
                j += 1;
            }
            // every write lands inside the file
            assert!(ns + nr <= wd.db.file_len());
            // ---- C02: INV + what happened to each byte of the allocated area ----
            inv_at(&wd, w, true);
            if w >= ns && w < ns + nr {
                assert!(after.kind == Kind::Region && after.index == idx);
                // space taken was free (promoted hole or beyond the old end) or the region's own
                assert!(before.n == 0 || before.kind == Kind::Hole || (before.kind == Kind::Region && before.index == idx));
            } else if w >= start && w < start + reserved {
                assert!(relocated && after.kind == Kind::Pending);
            } else {
                assert!(after.kind == before.kind && after.index == before.index && after.n == before.n);
            }
            // reuse clause: growing the allocated area only when no promoted hole was adequate
            if relocated && ns >= old_end {
                let mut j = 0;
                while j < N {
                    if kinds[j] == Kind::Hole {
                        assert!(wd.sizes[j] < nr);
                    }
                    j += 1;
                }
            }
            // which growth paths are feasible depends on the shape; every shape can fit and grow
            kani::cover!(nr > reserved, "region grew (in place or relocated)");
            kani::cover!(nr == reserved && nl != len, "fits in reserve");
        }
    }
    core::mem::forget(res);
    core::mem::forget(r);
    // never tear the world down: Database::drop would run sync_bg_tasks and the whole drop glue
    core::mem::forget(wd);
}

macro_rules! wshapes {
    ($( $name:ident = [$($k:ident $p:expr),*] @ $x:expr; )*) => {
        $(
            #[kani::proof]
            #[kani::unwind(6)]
            #[kani::stub(alloc::fmt::format, stubs::format_stub)]
            #[kani::stub(crate::Database::sync_bg_tasks, crate::verif_root::sync_bg_tasks_stub)]
            fn $name() {
                body_write([$(Kind::$k),*], [$($p),*], $x);
            }
        )*
    };
}
// shape = sequence of extents "Kind pages"; @ position of the region written to
wshapes! {
    c01_write_r1x1 = [Region 1, Region 1] @ 1;
    c01_write_x1h4r1 = [Region 1, Hole 4, Region 1] @ 0;
    c01_write_x1h1r1 = [Region 1, Hole 1, Region 1] @ 0;
    c01_write_x1r1h2 = [Region 1, Region 1, Hole 2] @ 0;
    c01_write_x1r1h2r1h4 = [Region 1, Region 1, Hole 2, Region 1, Hole 4] @ 0;
    c01_write_x1p1 = [Region 1, Pending 1] @ 0;
    c01_write_x2r1 = [Region 2, Region 1] @ 0;
    c01_write_h1x1r1 = [Hole 1, Region 1, Region 1] @ 1;
    c01_write_x1h2p1 = [Region 1, Hole 2, Pending 1] @ 0;
}
