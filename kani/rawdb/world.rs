//! "World" = a Database in an arbitrary state satisfying the representation invariant, of a
//! concrete *shape* (sequence of consecutive extents) with symbolic geometry.
//!
//! INV (DESIGN section 5 C02):
//!  I1 every region: start%4096=0, reserved%4096=0, reserved>=4096, len<=reserved
//!  I2/I3 regions, promoted holes, pending holes and reservations tile [0, Layout::len()) exactly
//!  I4 no two promoted holes adjacent; hole_to_starts is the inverse of start_to_hole
//!  I5 start_to_region[s].start = s; every live slot of Regions appears exactly once in the layout
//!  I6 Layout::len() <= file_len = mmap.len() = cached_file_len
//!  I7 no reservations at quiescence
use super::*;
use crate::layout::verif_layout::{Kind, classify, structure_ok};
use crate::region::verif_region as vr;
use crate::region_metadata::verif_meta as vm;
use crate::regions::verif_regions as vg;
use crate::PAGE_SIZE;
use anydb_verif_platform::fs as pfs;

pub const IDS: [&str; 5] = ["a", "b", "c", "d", "e"];

pub struct World<const N: usize> {
    pub db: Database,
    pub kinds: [Kind; N],
    pub starts: [usize; N],
    pub sizes: [usize; N],
    pub lens: [usize; N],
    /// region of extent i (meaningful when kinds[i] == Region); slot index = number of regions before it
    pub regions: [Option<Region>; N],
    pub end: usize,
    pub file_len: usize,
    pub nregions: usize,
}

/// Build the world. Sizes 1..=max_pages pages, region lengths <= reserved, metadata states and
/// dirty bounds symbolic, file length symbolic (page multiple, >= end, <= end + 2 pages).
pub fn world<const N: usize>(kinds: [Kind; N], max_pages: u8) -> World<N> {
    world_opt(kinds, max_pages, true)
}

/// `with_ids = false`: the name index is left empty (operations that never consult it; saves the
/// string comparisons).
pub fn world_opt<const N: usize>(kinds: [Kind; N], max_pages: u8, with_ids: bool) -> World<N> {
    world_full(kinds, max_pages, None, with_ids)
}

/// Extent sizes concrete (`pages[i]` pages each): the layout is then a concrete object and every
/// map operation constant-folds; region content lengths, dirty bounds, metadata states, file
/// length stay symbolic.  Used by the operation-level (Level 2) harnesses: with symbolic extent
/// sizes one `Region::write` costs 9.4 M SAT variables / 520 s even on its cheapest path.
pub fn world_pages<const N: usize>(kinds: [Kind; N], pages: [u8; N], with_ids: bool) -> World<N> {
    world_full(kinds, 0, Some(pages), with_ids)
}

pub fn world_full<const N: usize>(kinds: [Kind; N], max_pages: u8, fixed: Option<[u8; N]>, with_ids: bool) -> World<N> {
    let db = mk_db(0, N);
    let mut w = World {
        db,
        kinds,
        starts: [0; N],
        sizes: [0; N],
        lens: [0; N],
        regions: [const { None }; N],
        end: 0,
        file_len: 0,
        nregions: 0,
    };
    let mut cursor = 0usize;
    let mut i = 0;
    while i < N {
        let pages: u8 = match fixed {
            Some(p) => p[i],
            None => {
                let p: u8 = kani::any();
                kani::assume(p >= 1 && p <= max_pages);
                p
            }
        };
        let size = (pages as usize) * PAGE_SIZE;
        match kinds[i] {
            Kind::Free => {}
            Kind::Region => {
                let len: usize = kani::any();
                kani::assume(len <= size);
                let st: u8 = kani::any();
                kani::assume(st <= 2);
                let d0: usize = kani::any();
                let d1: usize = kani::any();
                // dirty bounds: clean (MAX,0) or a range inside the reserve
                kani::assume((d0 == usize::MAX && d1 == 0) || (d0 < d1 && d1 <= size));
                let idx = w.nregions;
                let r = vr::mk_in_db(&w.db, idx, vm::mk_meta(IDS[idx], cursor, len, size, st), (d0, d1));
                layout_of(&w.db).insert_region(cursor, &r);
                vg::add(regions_of(&w.db), IDS[idx], &r, with_ids);
                w.regions[i] = Some(r);
                w.lens[i] = len;
                w.nregions += 1;
            }
            Kind::Hole => crate::layout::verif_layout::put_hole(layout_of(&w.db), cursor, size),
            Kind::Pending => crate::layout::verif_layout::put_pending(layout_of(&w.db), cursor, size),
            Kind::Reserved => crate::layout::verif_layout::put_reserved(layout_of(&w.db), cursor, size),
        }
        if kinds[i] != Kind::Free {
            w.starts[i] = cursor;
            w.sizes[i] = size;
            cursor += size;
        }
        i += 1;
    }
    w.end = cursor;
    let extra: u8 = kani::any();
    kani::assume(extra <= 2);
    w.file_len = cursor + extra as usize * PAGE_SIZE;
    set_file_len(&w.db, w.file_len);
    // the regions file is long enough for the registered slots
    w
}

pub fn set_file_len(db: &Database, n: usize) {
    pfs::state().files[pfs::DATA].len = n;
    db.0.mmap.verif_peek().len = n;
    db.0.cached_file_len.store(n, Ordering::Relaxed);
}

/// Post-state invariant, pointwise in `w`: every byte below Layout::len() is in exactly one tracked
/// extent, none above; structure clauses; per-region clauses for the regions of the shape.
pub fn inv_at<const N: usize>(wd: &World<N>, w: usize, quiescent: bool) {
    let l = layout_of(&wd.db);
    let c = classify(l, w);
    let end = l.len();
    assert!(if w < end { c.n == 1 } else { c.n == 0 });
    assert!(structure_ok(l));
    if quiescent {
        assert!(crate::layout::verif_layout::n_reserved(l) == 0);
        let fl = wd.db.file_len();
        assert!(end <= fl);
        assert!(fl == mmap_len_of(&wd.db));
        assert!(fl == pfs::state().files[pfs::DATA].len);
    }
    let mut i = 0;
    while i < N {
        if let Some(r) = &wd.regions[i] {
            let (s, len, res) = vr::geom(r);
            assert!(s % PAGE_SIZE == 0 && res % PAGE_SIZE == 0 && res >= PAGE_SIZE && len <= res);
        }
        i += 1;
    }
}
