//! Mounted as a child of `regions`: builders/observers for the private Regions table.
#![allow(dead_code)]
use super::*;
use anydb_verif_platform::fs as pfs;
use anydb_verif_platform::mmap::MmapMut as PMmap;

/// Empty table over the model regions file (ghost mode, `slots` metadata slots long).
pub(crate) fn mk_regions(slots: usize) -> Regions {
    pfs::state().files[pfs::REGIONS].len = slots * SIZE_OF_REGION_METADATA;
    Regions {
        id_to_index: HashMap::new(),
        index_to_region: Vec::with_capacity(4),
        file: File::verif_new(pfs::REGIONS),
        mmap: PMmap::verif_new(pfs::REGIONS, slots * SIZE_OF_REGION_METADATA),
    }
}
/// Register a region in slot `region.index()` (must be the next free slot) under `id`.
/// No `Vec::push`: the grow path of a std Vec is what made every database-level harness explode
/// (29 M SAT variables for a 3-extent world); the table is a Vec of concrete capacity 8 that is
/// filled through raw writes.
pub(crate) fn add(rs: &mut Regions, id: &str, region: &Region, with_id: bool) {
    let n = rs.index_to_region.len();
    assert!(region.index() == n && n < 4);
    unsafe {
        rs.index_to_region.as_mut_ptr().add(n).write(Some(region.clone()));
        rs.index_to_region.set_len(n + 1);
    }
    if with_id {
        rs.id_to_index.insert(String::from(id), region.index());
    }
}
pub(crate) fn slot_is_some(rs: &Regions, i: usize) -> bool {
    rs.index_to_region.get(i).map_or(false, |o| o.is_some())
}
pub(crate) fn id_index(rs: &Regions, id: &str) -> Option<usize> {
    rs.id_to_index.get(id).copied()
}
pub(crate) fn n_ids(rs: &Regions) -> usize {
    rs.id_to_index.len()
}
pub(crate) fn n_slots(rs: &Regions) -> usize {
    rs.index_to_region.len()
}
pub(crate) fn mmap_len(rs: &Regions) -> usize {
    rs.mmap.len()
}
