//! Level 2: the smaller real operations (truncate, rename, remove, flush, compact/punch_holes,
//! create_region_if_needed) from an arbitrary INV world with concrete extent sizes.
use super::world::*;
use super::*;
use crate::layout::verif_layout::{Kind, classify};
use crate::region::verif_region as vr;
use crate::region_metadata::verif_meta as vm;
use crate::regions::verif_regions as vg;
use anydb_verif_platform::fs as pfs;
use anydb_verif_platform::ghost::{self, K};
use anydb_verif_platform::sync as psync;

fn any_addr() -> usize {
    let w: usize = kani::any();
    kani::assume(w < 64 * PAGE_SIZE);
    w
}

macro_rules! l2 {
    ($name:ident, $unwind:expr, $body:block) => {
        #[kani::proof]
        #[kani::unwind($unwind)]
        #[kani::stub(alloc::fmt::format, stubs::format_stub)]
        #[kani::stub(crate::Database::sync_bg_tasks, crate::verif_root::sync_bg_tasks_stub)]
        #[kani::stub(<[u8]>::to_vec, stubs::to_vec_stub)]
        fn $name() $body
    };
}

/// the region's name is the one-byte string `c` (no memcmp)
fn id_is(r: &Region, c: u8) -> bool {
    let m = r.meta();
    let b = m.id().as_bytes();
    b.len() == 1 && b[0] == c
}

/// geometry of all regions of the world unchanged, no data event inside them
fn others_untouched<const N: usize>(wd: &World<N>, except: usize) {
    let mut j = 0;
    while j < N {
        if j != except {
            if let Some(o) = &wd.regions[j] {
                let (os, ol, or) = vr::geom(o);
                assert!(os == wd.starts[j] && or == wd.sizes[j] && ol == wd.lens[j]);
                assert!(!ghost::touches(pfs::DATA, os, os + or));
            }
        }
        j += 1;
    }
}

// ---------------------------------------------------------------------------------------------
// truncate
l2!(c01_truncate_step, 6, {
    let wd = world_pages([Kind::Region, Kind::Hole, Kind::Region], [2, 1, 1], false);
    let r = wd.regions[0].clone().unwrap();
    let (start, len, reserved) = vr::geom(&r);
    let st0 = vm::state_of(&*r.meta());
    let from: usize = kani::any();
    classify_locks(&wd);
    ghost::clear();
    ghost::enable_lock_tap(true);
    let w = any_addr();
    let before = classify(layout_of(&wd.db), w);
    let res = r.truncate(from);
    assert!(lock_order_ok(), "lock order / re-acquisition violation in Region::truncate");
    let after = classify(layout_of(&wd.db), w);
    let (ns, nl, nr) = vr::geom(&r);
    assert!(after == before);
    assert!(ns == start && nr == reserved);
    assert!(ghost::count(K::Copy) == 0);
    others_untouched(&wd, 0);
    match &res {
        Ok(()) => {
            assert!(from <= len && nl == from);
            if from < len {
                // exactly one slot write with the new length, no data write
                assert!(ghost::len() == 1);
                let l = ghost::get();
                assert!(l.k[0] == K::Write && l.a[0] == pfs::REGIONS && l.b[0] == 0 && l.c[0] == 4096);
                assert!(l.x[0][0] == start as u64 && l.x[0][1] == from as u64 && l.x[0][2] == reserved as u64);
                assert!(vm::state_of(&*r.meta()) == 1);
            } else {
                assert!(ghost::len() == 0 && vm::state_of(&*r.meta()) == st0);
            }
            kani::cover!(from < len, "real truncation");
            kani::cover!(from == len, "no-op truncation");
        }
        Err(_) => {
            // C13: refused truncate has no effect
            assert!(from > len && nl == len && ghost::len() == 0 && vm::state_of(&*r.meta()) == st0);
            kani::cover!(true, "truncate beyond the length refused");
        }
    }
    assert!(psync::nothing_held());
    core::mem::forget((res, r, wd));
});

// ---------------------------------------------------------------------------------------------
// rename
l2!(c01_rename_step, 6, {
    let wd = world_pages([Kind::Region, Kind::Region], [1, 1], true);
    let r = wd.regions[0].clone().unwrap();
    let geom0 = vr::geom(&r);
    let st0 = vm::state_of(&*r.meta());
    // target: an existing name ("b"), its own name ("a"), or a fresh one ("z")
    let which: u8 = kani::any();
    kani::assume(which <= 2);
    let new_id = match which { 0 => "b", 1 => "a", _ => "z" };
    classify_locks(&wd);
    ghost::clear();
    ghost::enable_lock_tap(true);
    let res = r.rename(new_id);
    assert!(lock_order_ok(), "lock order / re-acquisition violation in Region::rename");
    let rs = regions_of(&wd.db);
    assert!(vr::geom(&r) == geom0);
    others_untouched(&wd, 0);
    assert!(ghost::count(K::Copy) == 0 && !ghost::touches(pfs::DATA, 0, usize::MAX / 2));
    match &res {
        Ok(()) => {
            assert!(which == 2);
            assert!(vg::id_index(rs, "z") == Some(0) && vg::id_index(rs, "a").is_none() && vg::id_index(rs, "b") == Some(1));
            assert!(id_is(&r, b'z'));
            // slot rewritten with the new name
            assert!(ghost::len() == 1);
            let l = ghost::get();
            assert!(l.k[0] == K::Write && l.a[0] == pfs::REGIONS && l.b[0] == 0);
            assert!(l.x[0][3] == (1u64 << 8 | b'z' as u64));
            kani::cover!(true, "rename to a fresh name");
        }
        Err(_) => {
            // C13: rename onto an existing name (another region's or its own) is refused, no effect
            assert!(which <= 1);
            assert!(vg::id_index(rs, "a") == Some(0) && vg::id_index(rs, "b") == Some(1) && vg::n_ids(rs) == 2);
            assert!(id_is(&r, b'a'));
            assert!(vm::state_of(&*r.meta()) == st0);
            assert!(ghost::len() == 0);
            kani::cover!(which == 0, "rename onto another region's name refused");
        }
    }
    assert!(psync::nothing_held());
    core::mem::forget((res, r, wd));
});

// ---------------------------------------------------------------------------------------------
// remove (no other handle alive)
fn body_remove<const N: usize>(kinds: [Kind; N], pages: [u8; N], x: usize, extra: usize) {
    let wd = world_pages(kinds, pages, true);
    let r = wd.regions[x].clone().unwrap();
    let idx = r.index();
    // handles: regions table + layout + the `self` passed to remove (+ extra live clones)
    vr::set_strong(&r, 3 + extra);
    let (start, _len, reserved) = vr::geom(&r);
    ghost::clear();
    let w = any_addr();
    let before = classify(layout_of(&wd.db), w);
    let end0 = layout_of(&wd.db).len();
    let res = r.remove();
    let after = classify(layout_of(&wd.db), w);
    let rs = regions_of(&wd.db);
    others_untouched(&wd, x);
    match &res {
        Ok(()) => {
            assert!(extra == 0);
            // the extent is free but *pending* (its bytes stay intact until the next flush)
            if w >= start && w < start + reserved {
                assert!(after.n == 1 && after.kind == Kind::Pending && after.start == start && after.size == reserved);
            } else {
                assert!(after == before);
            }
            assert!(layout_of(&wd.db).len() == end0);
            // the name is gone, the slot is free and zeroed on disk
            assert!(vg::id_index(rs, IDS[idx]).is_none());
            assert!(!vg::slot_is_some(rs, idx));
            assert!(ghost::len() == 1);
            let l = ghost::get();
            assert!(l.k[0] == K::Write && l.a[0] == pfs::REGIONS && l.b[0] == idx * 4096 && l.c[0] == 4096);
            assert!(l.x[0][0] == 0 && l.x[0][1] == 0 && l.x[0][2] == 0 && l.x[0][3] == 0);
            inv_at(&wd, w, true);
        }
        Err(_) => {
            // C13: refused (still referenced) => no effect at all
            assert!(extra > 0);
            assert!(after == before, "refused remove changed the layout");
            assert!(vg::id_index(rs, IDS[idx]) == Some(idx) && vg::slot_is_some(rs, idx));
            assert!(ghost::len() == 0);
            inv_at(&wd, w, true);
        }
    }
    assert!(psync::nothing_held());
    kani::cover!(res.is_ok() == (extra == 0), "end of harness reachable with the expected outcome");
    core::mem::forget((res, wd));
}
l2!(c01_remove_step, 6, { body_remove([Kind::Region, Kind::Region, Kind::Hole], [1, 2, 1], 1, 0); });
l2!(c01_remove_last_step, 6, { body_remove([Kind::Hole, Kind::Region], [1, 1], 1, 0); });
l2!(c13_remove_refused_no_effect, 6, { body_remove([Kind::Region, Kind::Region, Kind::Hole], [1, 2, 1], 1, 1); });

// ---------------------------------------------------------------------------------------------
// lock classes (documented order: layout -> regions -> mmap -> file -> meta -> dirty_bounds)
pub(crate) const LAYOUT: u8 = 1;
pub(crate) const REGIONS: u8 = 2;
pub(crate) const MMAP: u8 = 3;
pub(crate) const FILE: u8 = 4;
pub(crate) const META: u8 = 5;
pub(crate) const DIRTY: u8 = 6;

pub(crate) fn classify_locks<const N: usize>(wd: &World<N>) {
    let ids = lock_ids(&wd.db);
    psync::set_class(ids[0], LAYOUT);
    psync::set_class(ids[1], REGIONS);
    psync::set_class(ids[2], MMAP);
    psync::set_class(ids[3], FILE);
    let mut i = 0;
    while i < N {
        if let Some(r) = &wd.regions[i] {
            psync::set_class(vr::meta_lock_id(r), META);
            psync::set_class(vr::dirty_lock_id(r), DIRTY);
        }
        i += 1;
    }
}

/// C11 obligations O1/O2 over the lock tap: whenever a lock is requested, every lock currently held
/// is of a strictly smaller class (documented order), and a lock that is already held in any mode is
/// never requested again (writer-preferring locks: a queued writer blocks the second read).
/// O3: nothing is held at the end.
pub(crate) fn lock_order_ok() -> bool {
    let t = ghost::tap();
    let mut held_ids: u32 = 0; // bit per lock id (NLOCK <= 20)
    let mut per_class = [0u8; 8]; // how many locks of each class are held
    let mut ok = true;
    anydb_verif_platform::unroll48!(i, {
        if i < t.n {
            let id = (t.e[i] & 255) as usize;
            let c = psync::class_of(id) as usize;
            if t.e[i] & 256 == 0 {
                if held_ids & (1u32 << id) != 0 {
                    ok = false; // re-request of a lock this thread already holds
                }
                if c != 0 {
                    // every held lock must be of a strictly smaller class
                    anydb_verif_platform::unroll8!(k, {
                        if k >= c && per_class[k] > 0 {
                            ok = false;
                        }
                    });
                }
                held_ids |= 1u32 << id;
                per_class[c] += 1;
            } else {
                // guards are released one for one; a recursive acquisition was flagged above
                if per_class[c] > 0 {
                    per_class[c] -= 1;
                }
                if per_class[c] == 0 || true {
                    held_ids &= !(1u32 << id);
                }
            }
        }
    });
    ok
}

// ---------------------------------------------------------------------------------------------
// flush: durability order, clean marking, promotion of pending holes only after both syncs
#[kani::proof]
#[kani::unwind(6)]
#[kani::stub(alloc::fmt::format, stubs::format_stub)]
#[kani::stub(crate::Database::sync_bg_tasks, crate::verif_root::sync_bg_tasks_stub)]
#[kani::stub(crate::layout::Layout::promote_pending_holes, crate::layout::verif_layout::promote_stub)]
fn c05_flush_order() {
    let wd = world_pages([Kind::Region, Kind::Region, Kind::Pending], [1, 1, 1], false);
    let (r0, r1) = (wd.regions[0].clone().unwrap(), wd.regions[1].clone().unwrap());
    let s0 = vm::state_of(&*r0.meta());
    let s1 = vm::state_of(&*r1.meta());
    let d0 = vr::dirty_peek(&r0);
    let d1 = vr::dirty_peek(&r1);
    // a never-written fresh region (NEEDS_WRITE) has no dirty data
    kani::assume(s0 != 2 || d0 == (usize::MAX, 0));
    kani::assume(s1 != 2 || d1 == (usize::MAX, 0));
    let dirty0 = d0.0 < d0.1 || s0 == 1;
    let dirty1 = d1.0 < d1.1 || s1 == 1;
    let fail_sync = kani::any::<bool>();
    let fail_flush = kani::any::<bool>();
    pfs::state().fail_sync = fail_sync;
    pfs::state().fail_flush = fail_flush;
    classify_locks(&wd);
    ghost::clear();
    ghost::enable_lock_tap(false);
    let res = wd.db.flush();
    // positions of the durability events
    let l = ghost::get();
    let (mut fa_data, mut fa_meta, mut sy_data, mut sy_meta) = (usize::MAX, usize::MAX, usize::MAX, usize::MAX);
    anydb_verif_platform::unroll20!(i, {
        if i < l.n {
            match (l.k[i], l.a[i]) {
                (K::FlushAsync, pfs::DATA) => fa_data = i,
                (K::FlushAsync, pfs::REGIONS) => fa_meta = i,
                (K::Sync, pfs::DATA) => sy_data = i,
                (K::Sync, pfs::REGIONS) => sy_meta = i,
                _ => {}
            }
        }
    });
    assert!(ghost::count(K::Write) == 0 && ghost::count(K::Copy) == 0 && ghost::count(K::SetLen) == 0);
    let lay = layout_of(&wd.db);
    match &res {
        Ok(n) => {
            assert!(*n == dirty0 as usize + dirty1 as usize);
            if dirty0 || dirty1 {
                // data durable before metadata: sync(data) precedes sync(regions); both happened
                assert!(sy_data != usize::MAX && sy_meta != usize::MAX && sy_data < sy_meta);
                assert!(fa_meta != usize::MAX && fa_meta < sy_meta);
                if d0.0 < d0.1 || d1.0 < d1.1 {
                    assert!(fa_data != usize::MAX && fa_data < sy_data);
                    // the async range covers every dirty byte
                    let (lo, hi) = (l.b[fa_data], l.b[fa_data] + l.c[fa_data]);
                    if d0.0 < d0.1 { assert!(lo <= wd.starts[0] + d0.0 && wd.starts[0] + d0.1 <= hi); }
                    if d1.0 < d1.1 { assert!(lo <= wd.starts[1] + d1.0 && wd.starts[1] + d1.1 <= hi); }
                }
                if dirty0 { assert!(vm::state_of(&*r0.meta()) == 0); }
                if dirty1 { assert!(vm::state_of(&*r1.meta()) == 0); }
            } else {
                assert!(l.n == 1);
            }
            // pending extents become reusable only now: promotion is the last effect, after both syncs
            assert!(crate::layout::verif_layout::n_pending(lay) == 0);
            assert!(l.n >= 1 && l.k[l.n - 1] == K::Pause && l.a[l.n - 1] == 99 && l.b[l.n - 1] == 1);
            assert!(ghost::count(K::Pause) == 1);
            assert!(vr::dirty_peek(&r0) == (usize::MAX, 0) && vr::dirty_peek(&r1) == (usize::MAX, 0));
            kani::cover!(dirty0 && dirty1, "two dirty regions flushed");
            kani::cover!(!dirty0 && !dirty1, "nothing dirty: only promotion");
        }
        Err(_) => {
            assert!(fail_sync || fail_flush);
            assert!(dirty0 || dirty1);
            // a failed flush never promotes (old extents stay protected) and never marks clean
            // what was not synced
            assert!(crate::layout::verif_layout::n_pending(lay) == 1 && ghost::count(K::Pause) == 0);
            if sy_meta == usize::MAX {
                if s0 == 1 { assert!(vm::state_of(&*r0.meta()) == 1); }
                if s1 == 1 { assert!(vm::state_of(&*r1.meta()) == 1); }
            }
            kani::cover!(fail_sync, "sync failure");
        }
    }
    assert!(psync::nothing_held());
    core::mem::forget((res, r0, r1, wd));
}

// flush again with the lock tap on: C11 obligations (small log: events + lock events)
#[kani::proof]
#[kani::unwind(6)]
#[kani::stub(alloc::fmt::format, stubs::format_stub)]
#[kani::stub(crate::Database::sync_bg_tasks, crate::verif_root::sync_bg_tasks_stub)]
#[kani::stub(crate::layout::Layout::promote_pending_holes, crate::layout::verif_layout::promote_stub)]
fn c11_flush_lock_order() {
    let wd = world_pages([Kind::Region, Kind::Pending], [1, 1], false);
    classify_locks(&wd);
    ghost::clear();
    ghost::enable_lock_tap(true);
    let res = wd.db.flush();
    assert!(lock_order_ok(), "lock order / re-acquisition violation in Database::flush");
    assert!(psync::nothing_held());
    kani::cover!(res.is_ok() && ghost::count(K::Sync) == 2, "dirty flush path");
    kani::cover!(res.is_ok() && ghost::count(K::Sync) == 0, "clean flush path");
    core::mem::forget((res, wd));
}

// ---------------------------------------------------------------------------------------------
// compact = flush + punch_holes
#[kani::proof]
#[kani::unwind(6)]
#[kani::stub(alloc::fmt::format, stubs::format_stub)]
#[kani::stub(crate::Database::sync_bg_tasks, crate::verif_root::sync_bg_tasks_stub)]
#[kani::stub(crate::layout::Layout::promote_pending_holes, crate::layout::verif_layout::promote_stub)]
fn c12_compact_step() {
    let wd = world_pages([Kind::Region, Kind::Hole, Kind::Region, Kind::Pending], [2, 1, 1, 1], false);
    let (r0, r2) = (wd.regions[0].clone().unwrap(), wd.regions[2].clone().unwrap());
    let g0 = vr::geom(&r0);
    let g2 = vr::geom(&r2);
    kani::assume(vm::state_of(&*r0.meta()) != 2 || vr::dirty_peek(&r0) == (usize::MAX, 0));
    kani::assume(vm::state_of(&*r2.meta()) != 2 || vr::dirty_peek(&r2) == (usize::MAX, 0));
    ghost::clear();
    let res = wd.db.compact();
    assert!(res.is_ok());
    // nothing about any live region changes; the logical file length is untouched
    assert!(vr::geom(&r0) == g0 && vr::geom(&r2) == g2);
    assert!(ghost::count(K::SetLen) == 0 && ghost::count(K::Write) == 0 && ghost::count(K::Copy) == 0);
    let l = ghost::get();
    let mut last_meta_sync = usize::MAX;
    anydb_verif_platform::unroll20!(i, {
        if i < l.n && l.k[i] == K::Sync && l.a[i] == pfs::REGIONS {
            last_meta_sync = i;
        }
    });
    let ceil = |n: usize| (n + 4095) & !4095;
    let mut npunch = 0;
    anydb_verif_platform::unroll20!(i, {
        if i < l.n && l.k[i] == K::Punch {
            npunch += 1;
            let (s, n) = (l.b[i], l.c[i]);
            assert!(l.a[i] == pfs::DATA && s % 4096 == 0 && n % 4096 == 0 && n > 0);
            // inside the unused tail of a region's reserve, or inside free space
            let in_tail0 = s >= g0.0 + ceil(g0.1) && s + n <= g0.0 + g0.2;
            let in_tail2 = s >= g2.0 + ceil(g2.1) && s + n <= g2.0 + g2.2;
            let in_hole = s >= wd.starts[1] && s + n <= wd.starts[1] + wd.sizes[1];
            let in_old_pending = s >= wd.starts[3] && s + n <= wd.starts[3] + wd.sizes[3];
            assert!(in_tail0 || in_tail2 || in_hole || in_old_pending);
            // never a byte a live region can read
            assert!(s + n <= g0.0 || s >= g0.0 + ceil(g0.1));
            assert!(s + n <= g2.0 || s >= g2.0 + ceil(g2.1));
            // an extent freed since the last flush is punched only after this flush made the
            // metadata that no longer references it durable (or there was nothing to sync)
            if in_old_pending && last_meta_sync != usize::MAX {
                assert!(i > last_meta_sync);
            }
        }
    });
    kani::cover!(npunch >= 2, "tail and hole punched");
    assert!(psync::nothing_held());
    core::mem::forget((res, r0, r2, wd));
}

#[kani::proof]
#[kani::unwind(6)]
#[kani::stub(alloc::fmt::format, stubs::format_stub)]
#[kani::stub(crate::Database::sync_bg_tasks, crate::verif_root::sync_bg_tasks_stub)]
#[kani::stub(crate::layout::Layout::promote_pending_holes, crate::layout::verif_layout::promote_stub)]
fn c11_compact_lock_order() {
    let wd = world_pages([Kind::Region, Kind::Hole], [2, 1], false);
    let r0 = wd.regions[0].clone().unwrap();
    // clean region: the flush half takes no per-region path; keeps the tap log small
    vm::set_state(r0.meta_mut_peek(), 0);
    classify_locks(&wd);
    ghost::clear();
    ghost::enable_lock_tap(true);
    let res = wd.db.compact();
    assert!(lock_order_ok(), "lock order / re-acquisition violation in Database::compact");
    assert!(psync::nothing_held());
    kani::cover!(ghost::count(K::Punch) >= 1, "something punched");
    core::mem::forget((res, r0, wd));
}

// ---------------------------------------------------------------------------------------------
// create_region_if_needed
fn body_create<const N: usize>(kinds: [Kind; N], pages: [u8; N]) {
    let wd = world_pages(kinds, pages, true);
    let existing = kani::any::<bool>();
    let fail = kani::any::<bool>();
    pfs::state().fail_set_len = fail;
    let end0 = layout_of(&wd.db).len();
    let file0 = wd.db.file_len();
    ghost::clear();
    let w = any_addr();
    let before = classify(layout_of(&wd.db), w);
    let res = wd.db.create_region_if_needed(if existing { "a" } else { "z" });
    let after = classify(layout_of(&wd.db), w);
    others_untouched(&wd, usize::MAX);
    match &res {
        Ok(r) => {
            if existing {
                assert!(r.index() == 0 && after == before && ghost::count(K::Write) == 0);
            } else {
                let (s, len, res_) = vr::geom(r);
                assert!(len == 0 && res_ == PAGE_SIZE && s % PAGE_SIZE == 0);
                // best fit: a smallest promoted hole if any, otherwise the end of the allocated area
                let mut best: Option<(usize, usize)> = None;
                let mut j = 0;
                while j < N {
                    if kinds[j] == Kind::Hole {
                        best = match best {
                            Some((_, z)) if z <= wd.sizes[j] => best,
                            _ => Some((wd.starts[j], wd.sizes[j])),
                        };
                    }
                    j += 1;
                }
                match best {
                    Some((_, z)) => {
                        // placed at the start of a hole of the smallest size
                        let mut ok = false;
                        let mut j = 0;
                        while j < N {
                            if kinds[j] == Kind::Hole && wd.starts[j] == s && wd.sizes[j] == z {
                                ok = true;
                            }
                            j += 1;
                        }
                        assert!(ok && layout_of(&wd.db).len() == end0);
                    }
                    None => assert!(s == end0 && layout_of(&wd.db).len() == end0 + PAGE_SIZE),
                }
                assert!(s + PAGE_SIZE <= wd.db.file_len());
                // registered under the name, in the first free slot
                let rs = regions_of(&wd.db);
                assert!(vg::id_index(rs, "z") == Some(wd.nregions) && r.index() == wd.nregions);
                if w >= s && w < s + PAGE_SIZE {
                    assert!(after.kind == Kind::Region && after.index == wd.nregions);
                    assert!(before.n == 0 || before.kind == Kind::Hole);
                } else {
                    assert!(after.kind == before.kind && after.index == before.index);
                }
                inv_at(&wd, w, true);
                kani::cover!(best.is_some(), "placed in a hole");
                kani::cover!(best.is_none() && wd.db.file_len() > file0, "placed at the end, file grown");
            }
        }
        Err(_) => {
            // only a file-growth failure can refuse; nothing was allocated
            assert!(fail && !existing);
            assert!(after == before && layout_of(&wd.db).len() == end0);
            assert!(vg::id_index(regions_of(&wd.db), "z").is_none());
        }
    }
    assert!(psync::nothing_held());
    core::mem::forget((res, wd));
}
l2!(c02_create_r1h2r1h1, 6, { body_create([Kind::Region, Kind::Hole, Kind::Region, Kind::Hole], [1, 2, 1, 1]); });
l2!(c02_create_r1p1, 6, { body_create([Kind::Region, Kind::Pending], [1, 1]); });
l2!(c02_create_r1r1, 6, { body_create([Kind::Region, Kind::Region], [1, 1]); });

// ---------------------------------------------------------------------------------------------
// C18 (the part that is code): open_with_min_len on the fs model.  A refused open (either file
// locked by another holder) has modified nothing; the data file is locked before it may be resized.
/// `Path::file_name` parses components with a byte-level state machine; the database's display name is
/// not part of the property.
fn c18_file_name_stub(_p: &std::path::Path) -> Option<&std::ffi::OsStr> {
    None
}
/// `Path::join`: the fs model identifies a file by the last bytes of its path, so the joined path is
/// represented by its last component ("data" / "regions").
fn c18_join_stub<P: AsRef<std::path::Path>>(_s: &std::path::Path, p: P) -> std::path::PathBuf {
    p.as_ref().to_path_buf()
}
/// `Regions::fill` runs after both locks are held and only reads the (here empty) regions file; slot
/// decoding is decided by the C17 harnesses.
fn c18_fill_stub(_r: &mut crate::regions::Regions, _db: &Database) -> Result<()> {
    Ok(())
}
#[kani::proof]
#[kani::unwind(9)]
#[kani::stub(alloc::fmt::format, stubs::format_stub)]
#[kani::stub(crate::Database::sync_bg_tasks, crate::verif_root::sync_bg_tasks_stub)]
#[kani::stub(<[u8]>::to_vec, stubs::to_vec_stub8)]
#[kani::stub(std::path::Path::file_name, c18_file_name_stub)]
#[kani::stub(std::path::Path::join, c18_join_stub)]
#[kani::stub(crate::regions::Regions::fill, c18_fill_stub)]
fn c18_open_refusal_has_no_effect() {
    let data_len: usize = kani::any();
    let min_len: usize = kani::any();
    kani::assume(data_len <= 8 * PAGE_SIZE && data_len % PAGE_SIZE == 0 && min_len <= 16 * PAGE_SIZE);
    let data_locked = kani::any::<bool>();
    let regions_locked = kani::any::<bool>();
    {
        let fs = pfs::state();
        fs.files[pfs::DATA].len = data_len;
        fs.files[pfs::DATA].locked_elsewhere = data_locked;
        fs.files[pfs::REGIONS].len = 0; // no metadata slots: fill() and Layout::from are trivial
        fs.files[pfs::REGIONS].locked_elsewhere = regions_locked;
        fs.open_seq = 0; // first open = data file, second = regions file
    }
    ghost::clear();
    let res = Database::open_with_min_len(std::path::Path::new("d"), min_len);
    let l = ghost::get();
    // positions
    let (mut lock_data, mut first_setlen, mut first_sync) = (usize::MAX, usize::MAX, usize::MAX);
    let mut truncating_open = false;
    anydb_verif_platform::unroll20!(i, {
        if i < l.n {
            if l.k[i] == K::TryLock && l.a[i] == pfs::DATA && lock_data == usize::MAX { lock_data = i; }
            if l.k[i] == K::SetLen && first_setlen == usize::MAX { first_setlen = i; }
            if l.k[i] == K::Sync && first_sync == usize::MAX { first_sync = i; }
            if l.k[i] == K::Open && l.b[i] != 0 { truncating_open = true; }
        }
    });
    assert!(!truncating_open, "a file was opened with truncate(true)");
    // the lock attempt on the data file precedes any resize / sync
    assert!(first_setlen == usize::MAX || lock_data < first_setlen);
    assert!(first_sync == usize::MAX || lock_data < first_sync);
    let fs = pfs::state();
    match &res {
        Ok(db) => {
            assert!(!data_locked && !regions_locked);
            assert!(fs.files[pfs::DATA].locked && fs.files[pfs::REGIONS].locked);
            let want = if data_len < min_len { min_len } else { data_len };
            assert!(fs.files[pfs::DATA].len == want && db.file_len() == want);
            kani::cover!(data_len < min_len, "pre-sized on open");
        }
        Err(_) => {
            assert!(data_locked || regions_locked);
            if data_locked {
                // refused before anything was touched
                assert!(ghost::count(K::SetLen) == 0 && ghost::count(K::Sync) == 0 && ghost::count(K::Write) == 0);
                assert!(fs.files[pfs::DATA].len == data_len);
            }
            assert!(fs.files[pfs::REGIONS].len == 0);
            kani::cover!(data_locked && data_len < min_len, "refused open with a larger min_len");
        }
    }
    core::mem::forget(res);
}

// C18 (lifetime of the lock): both advisory locks live exactly as long as some Database handle does.  The
// fs model releases a file's lock when the last handle on the locking open-file description is dropped
// (what the kernel does for flock); a read-only file handed out to external consumers must therefore be a
// separate description, or it would keep the directory locked after the database is gone.
#[kani::proof]
#[kani::unwind(9)]
#[kani::stub(alloc::fmt::format, stubs::format_stub)]
#[kani::stub(crate::Database::sync_bg_tasks, crate::verif_root::sync_bg_tasks_stub)]
#[kani::stub(<[u8]>::to_vec, stubs::to_vec_stub8)]
#[kani::stub(std::path::Path::file_name, c18_file_name_stub)]
#[kani::stub(std::path::Path::join, c18_join_stub)]
#[kani::stub(crate::regions::Regions::fill, c18_fill_stub)]
fn c18_lock_lives_with_last_handle() {
    let data_len: usize = kani::any();
    kani::assume(data_len <= 8 * PAGE_SIZE && data_len % PAGE_SIZE == 0);
    {
        let fs = pfs::state();
        fs.files[pfs::DATA].len = data_len;
        fs.files[pfs::REGIONS].len = 0;
        fs.open_seq = 0;
    }
    anydb_verif_platform::sync::set_arc_teardown(true);
    let db = match Database::open_with_min_len(std::path::Path::new("d"), 0) {
        Ok(db) => db,
        Err(_) => panic!("open of an unlocked directory failed"),
    };
    assert!(pfs::state().files[pfs::DATA].locked && pfs::state().files[pfs::REGIONS].locked);
    let db2 = db.clone();
    let with_ro = kani::any::<bool>();
    let ro = if with_ro { db.open_read_only_file().ok() } else { None };
    drop(db);
    // a clone keeps the instance (and its locks) alive
    assert!(pfs::state().files[pfs::DATA].locked && pfs::state().files[pfs::REGIONS].locked, "lock released while a handle is alive");
    drop(db2);
    // last handle gone: a new open must be able to take both locks, even while a consumer still holds a read-only file
    assert!(!pfs::state().files[pfs::DATA].locked, "data-file lock outlives the last database handle");
    assert!(!pfs::state().files[pfs::REGIONS].locked, "regions-file lock outlives the last database handle");
    kani::cover!(with_ro && ro.is_some(), "a read-only file is still held by a consumer");
    core::mem::forget(ro);
}

// ---------------------------------------------------------------------------------------------
// C17 / C01 (reopen): Regions::fill registers exactly the slots that decode; a garbage slot is
// skipped without disturbing a valid one
#[kani::proof]
#[kani::unwind(6)]
#[kani::stub(alloc::fmt::format, stubs::format_stub)]
#[kani::stub(crate::Database::sync_bg_tasks, crate::verif_root::sync_bg_tasks_stub)]
#[kani::stub(<[u8]>::to_vec, stubs::to_vec_stub)]
fn c17_fill_skips_invalid_slot() {
    let mut buf: Box<[u8; 8192]> = Box::new([0u8; 8192]);
    // slot 0: arbitrary first 40 bytes (the decoder reads 32 + id_len <= 36 bytes when id_len <= 4 and
    // only the 32-byte prefix when id_len > 1024; the fully symbolic slot is c17_meta_from_bytes_any_slot)
    let head: [u8; 40] = kani::any();
    let mut s0 = [0u8; 4096];
    s0[..40].copy_from_slice(&head);
    let id_len = u64::from_le_bytes([s0[24], s0[25], s0[26], s0[27], s0[28], s0[29], s0[30], s0[31]]);
    kani::assume(id_len <= 4 || id_len > 1024);
    buf[..40].copy_from_slice(&head);
    // slot 1: a valid entry
    buf[4096 + 0..4096 + 8].copy_from_slice(&(8 * 4096u64).to_le_bytes());
    buf[4096 + 8..4096 + 16].copy_from_slice(&10u64.to_le_bytes());
    buf[4096 + 16..4096 + 24].copy_from_slice(&4096u64.to_le_bytes());
    buf[4096 + 24..4096 + 32].copy_from_slice(&1u64.to_le_bytes());
    buf[4096 + 32] = b'b';
    {
        let f = &mut pfs::state().files[pfs::REGIONS];
        f.buf = buf.as_mut_ptr();
        f.cap = 8192;
    }
    let db = mk_db(64 * 4096, 2); // regions map: 2 slots over the buffer above
    let r = regions_of(&db).fill(&db);
    assert!(r.is_ok());
    let rs = regions_of(&db);
    // the valid slot is always there, under its name, with its decoded geometry
    assert!(vg::slot_is_some(rs, 1) && vg::id_index(rs, "b") == Some(1));
    let b = rs.get_from_index(1).unwrap();
    assert!(vr::geom(b) == (8 * 4096, 10, 4096));
    // the other slot is registered iff it decodes
    let dec = RegionMetadata::from_bytes(&s0);
    assert!(vg::slot_is_some(rs, 0) == dec.is_ok());
    assert!(vg::n_slots(rs) == 2);
    kani::cover!(dec.is_err() && id_len <= 4, "garbage slot skipped");
    kani::cover!(dec.is_ok(), "second valid slot registered");
    core::mem::forget((dec, r, db, buf));
}
