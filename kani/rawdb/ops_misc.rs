//! Level 2: the smaller real operations (truncate, rename, remove, flush, compact/punch_holes,
//! create_region_if_needed) from an arbitrary INV world with concrete extent sizes.
use super::world::*;
use super::*;
use crate::layout::verif_layout::{Kind, classify};
use crate::region::verif_region as vr;
use crate::region_metadata::verif_meta as vm;
use crate::regions::verif_regions as vg;
use anydb_verif_platform::fs as pfs;
use anydb_verif_platform::ghost::{self, K};
use anydb_verif_platform::sync as psync;

fn any_addr() -> usize {
    let w: usize = kani::any();
    kani::assume(w < 64 * PAGE_SIZE);
    w
}

macro_rules! l2 {
    ($name:ident, $unwind:expr, $body:block) => {
        #[kani::proof]
        #[kani::unwind($unwind)]
        #[kani::stub(alloc::fmt::format, stubs::format_stub)]
        #[kani::stub(crate::Database::sync_bg_tasks, crate::verif_root::sync_bg_tasks_stub)]
        #[kani::stub(<[u8]>::to_vec, stubs::to_vec_stub)]
        fn $name() $body
    };
}

/// the region's name is the one-byte string `c` (no memcmp)
fn id_is(r: &Region, c: u8) -> bool {
    let m = r.meta();
    let b = m.id().as_bytes();
    b.len() == 1 && b[0] == c
}

/// geometry of all regions of the world unchanged, no data event inside them
fn others_untouched<const N: usize>(wd: &World<N>, except: usize) {
    let mut j = 0;
    while j < N {
        if j != except {
            if let Some(o) = &wd.regions[j] {
                let (os, ol, or) = vr::geom(o);
                assert!(os == wd.starts[j] && or == wd.sizes[j] && ol == wd.lens[j]);
                assert!(!ghost::touches(pfs::DATA, os, os + or));
            }
        }
        j += 1;
    }
}

// ---------------------------------------------------------------------------------------------
// truncate
l2!(c01_truncate_step, 21, {
    let wd = world_pages([Kind::Region, Kind::Hole, Kind::Region], [2, 1, 1], false);
    let r = wd.regions[0].clone().unwrap();
    let (start, len, reserved) = vr::geom(&r);
    let st0 = vm::state_of(&*r.meta());
    let from: usize = kani::any();
    ghost::clear();
    let w = any_addr();
    let before = classify(layout_of(&wd.db), w);
    let res = r.truncate(from);
    let after = classify(layout_of(&wd.db), w);
    let (ns, nl, nr) = vr::geom(&r);
    assert!(after == before);
    assert!(ns == start && nr == reserved);
    assert!(ghost::count(K::Copy) == 0);
    others_untouched(&wd, 0);
    match &res {
        Ok(()) => {
            assert!(from <= len && nl == from);
            if from < len {
                // exactly one slot write with the new length, no data write
                assert!(ghost::len() == 1);
                let l = ghost::get();
                assert!(l.k[0] == K::Write && l.a[0] == pfs::REGIONS && l.b[0] == 0 && l.c[0] == 4096);
                assert!(l.x[0][0] == start as u64 && l.x[0][1] == from as u64 && l.x[0][2] == reserved as u64);
                assert!(vm::state_of(&*r.meta()) == 1);
            } else {
                assert!(ghost::len() == 0 && vm::state_of(&*r.meta()) == st0);
            }
            kani::cover!(from < len, "real truncation");
            kani::cover!(from == len, "no-op truncation");
        }
        Err(_) => {
            // C13: refused truncate has no effect
            assert!(from > len && nl == len && ghost::len() == 0 && vm::state_of(&*r.meta()) == st0);
            kani::cover!(true, "truncate beyond the length refused");
        }
    }
    assert!(psync::nothing_held());
    core::mem::forget((res, r, wd));
});

// ---------------------------------------------------------------------------------------------
// rename
l2!(c01_rename_step, 21, {
    let wd = world_pages([Kind::Region, Kind::Region], [1, 1], true);
    let r = wd.regions[0].clone().unwrap();
    let geom0 = vr::geom(&r);
    let st0 = vm::state_of(&*r.meta());
    // target: an existing name ("b"), its own name ("a"), or a fresh one ("z")
    let which: u8 = kani::any();
    kani::assume(which <= 2);
    let new_id = match which { 0 => "b", 1 => "a", _ => "z" };
    ghost::clear();
    let res = r.rename(new_id);
    let rs = regions_of(&wd.db);
    assert!(vr::geom(&r) == geom0);
    others_untouched(&wd, 0);
    assert!(ghost::count(K::Copy) == 0 && !ghost::touches(pfs::DATA, 0, usize::MAX / 2));
    match &res {
        Ok(()) => {
            assert!(which == 2);
            assert!(vg::id_index(rs, "z") == Some(0) && vg::id_index(rs, "a").is_none() && vg::id_index(rs, "b") == Some(1));
            assert!(id_is(&r, b'z'));
            // slot rewritten with the new name
            assert!(ghost::len() == 1);
            let l = ghost::get();
            assert!(l.k[0] == K::Write && l.a[0] == pfs::REGIONS && l.b[0] == 0);
            assert!(l.x[0][3] == (1u64 << 8 | b'z' as u64));
            kani::cover!(true, "rename to a fresh name");
        }
        Err(_) => {
            // C13: rename onto an existing name (another region's or its own) is refused, no effect
            assert!(which <= 1);
            assert!(vg::id_index(rs, "a") == Some(0) && vg::id_index(rs, "b") == Some(1) && vg::n_ids(rs) == 2);
            assert!(id_is(&r, b'a'));
            assert!(vm::state_of(&*r.meta()) == st0);
            assert!(ghost::len() == 0);
            kani::cover!(which == 0, "rename onto another region's name refused");
        }
    }
    assert!(psync::nothing_held());
    core::mem::forget((res, r, wd));
});

// ---------------------------------------------------------------------------------------------
// remove (no other handle alive)
fn body_remove<const N: usize>(kinds: [Kind; N], pages: [u8; N], x: usize, extra: usize) {
    let wd = world_pages(kinds, pages, true);
    let r = wd.regions[x].clone().unwrap();
    let idx = r.index();
    // handles: regions table + layout + the `self` passed to remove (+ extra live clones)
    vr::set_strong(&r, 3 + extra);
    let (start, _len, reserved) = vr::geom(&r);
    ghost::clear();
    let w = any_addr();
    let before = classify(layout_of(&wd.db), w);
    let end0 = layout_of(&wd.db).len();
    let res = r.remove();
    let after = classify(layout_of(&wd.db), w);
    let rs = regions_of(&wd.db);
    others_untouched(&wd, x);
    match &res {
        Ok(()) => {
            assert!(extra == 0);
            // the extent is free but *pending* (its bytes stay intact until the next flush)
            if w >= start && w < start + reserved {
                assert!(after.n == 1 && after.kind == Kind::Pending && after.start == start && after.size == reserved);
            } else {
                assert!(after == before);
            }
            assert!(layout_of(&wd.db).len() == end0);
            // the name is gone, the slot is free and zeroed on disk
            assert!(vg::id_index(rs, IDS[idx]).is_none());
            assert!(!vg::slot_is_some(rs, idx));
            assert!(ghost::len() == 1);
            let l = ghost::get();
            assert!(l.k[0] == K::Write && l.a[0] == pfs::REGIONS && l.b[0] == idx * 4096 && l.c[0] == 4096);
            assert!(l.x[0][0] == 0 && l.x[0][1] == 0 && l.x[0][2] == 0 && l.x[0][3] == 0);
            inv_at(&wd, w, true);
            kani::cover!(true, "region removed");
        }
        Err(_) => {
            // C13: refused (still referenced) => no effect at all
            assert!(extra > 0);
            assert!(after == before, "refused remove changed the layout");
            assert!(vg::id_index(rs, IDS[idx]) == Some(idx) && vg::slot_is_some(rs, idx));
            assert!(ghost::len() == 0);
            inv_at(&wd, w, true);
            kani::cover!(true, "remove of a still-referenced region refused");
        }
    }
    assert!(psync::nothing_held());
    core::mem::forget((res, wd));
}
l2!(c01_remove_step, 21, { body_remove([Kind::Region, Kind::Region, Kind::Hole], [1, 2, 1], 1, 0); });
l2!(c01_remove_last_step, 21, { body_remove([Kind::Hole, Kind::Region], [1, 1], 1, 0); });
l2!(c13_remove_refused_no_effect, 21, { body_remove([Kind::Region, Kind::Region, Kind::Hole], [1, 2, 1], 1, 1); });
