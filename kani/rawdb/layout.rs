//! C02 Level 1: every `Layout` operation against its contract, from an arbitrary layout that
//! satisfies the representation invariant.  Mounted as a child of `layout` (private fields/fns).
//!
//! Arbitrary INV layouts are generated as *tilings*: NEXT consecutive extents, each absent or one
//! of {region, hole, pending hole, reservation} with a symbolic size in pages, no two promoted
//! holes adjacent.  Every INV layout with <= NEXT extents is an instance.
//!
//! The oracle is pointwise: for one symbolic byte address `w` (universally quantified by the
//! solver) `classify` says which tracked extents contain `w`; each operation's contract is a
//! relation between the classification before and after.  Structural clauses (inverse hole index,
//! no adjacent promoted holes) are checked by `structure_ok`.
#![allow(dead_code)]
use super::*;
use crate::PAGE_SIZE;
use crate::region::verif_region as vr;
use crate::region_metadata::verif_meta as vm;
use crate::verif_root::stubs;
use anydb_verif_platform::collections::CAP;

pub(crate) const NEXT: usize = 3;

#[derive(Clone, Copy, PartialEq, Eq, Debug)]
pub(crate) enum Kind {
    Free,
    Region,
    Hole,
    Pending,
    Reserved,
}

#[derive(Clone, Copy, PartialEq, Eq, Debug)]
pub(crate) struct Class {
    pub n: u8,
    pub kind: Kind,
    /// extent start / size; region index
    pub start: usize,
    pub size: usize,
    pub index: usize,
}

/// Which tracked extents contain byte `w` (n = how many: INV demands <= 1).
pub(crate) fn classify(l: &Layout, w: usize) -> Class {
    let mut c = Class { n: 0, kind: Kind::Free, start: 0, size: 0, index: usize::MAX };
    let mut j = 0;
    while j < CAP {
        if let Some((&s, r)) = l.start_to_region.verif_at(j) {
            let (_ms, _len, res) = vr::geom(r);
            if s <= w && w - s < res {
                c.n += 1;
                c.kind = Kind::Region;
                c.start = s;
                c.size = res;
                c.index = r.index();
            }
        }
        if let Some((&s, &z)) = l.start_to_hole.verif_at(j) {
            if s <= w && w - s < z {
                c.n += 1;
                c.kind = Kind::Hole;
                c.start = s;
                c.size = z;
            }
        }
        if let Some((&s, &z)) = l.pending_holes.verif_at(j) {
            if s <= w && w - s < z {
                c.n += 1;
                c.kind = Kind::Pending;
                c.start = s;
                c.size = z;
            }
        }
        if let Some((&s, &z)) = l.start_to_reserved.verif_at(j) {
            if s <= w && w - s < z {
                c.n += 1;
                c.kind = Kind::Reserved;
                c.start = s;
                c.size = z;
            }
        }
        j += 1;
    }
    c
}

/// I4: hole_to_starts is exactly the inverse of start_to_hole; no two promoted holes adjacent;
/// all sizes non-zero and page multiples.
pub(crate) fn structure_ok(l: &Layout) -> bool {
    let mut ok = true;
    let mut nstarts = 0;
    let mut j = 0;
    while j < CAP {
        if let Some((&s, &z)) = l.start_to_hole.verif_at(j) {
            if z == 0 || z % PAGE_SIZE != 0 || s % PAGE_SIZE != 0 {
                ok = false;
            }
            // not adjacent to another promoted hole
            if l.start_to_hole.get(&(s + z)).is_some() {
                ok = false;
            }
        }
        if let Some((&z, v)) = l.hole_to_starts.verif_at(j) {
            if v.is_empty() {
                ok = false;
            }
            let mut k = 0;
            while k < 3 {
                if let Some(&s) = v.verif_at(k) {
                    nstarts += 1;
                    if l.start_to_hole.get(&s) != Some(&z) {
                        ok = false;
                    }
                }
                k += 1;
            }
        }
        j += 1;
    }
    // every listed start maps back to its size, and there are exactly as many listed starts as
    // holes => the index is the exact inverse
    ok && nstarts == l.start_to_hole.len()
}

pub(crate) struct Tiling<const N: usize> {
    pub layout: Layout,
    pub end: usize,
    pub regions: [Region; N],
    pub kinds: [Kind; N],
    pub starts: [usize; N],
    pub sizes: [usize; N],
}

/// INV layout of the concrete *shape* `kinds` (consecutive extents; `Free` = absent) with symbolic
/// sizes (1..=max_pages pages each) and symbolic region lengths.  "Structure concrete, geometry
/// symbolic" (DESIGN section 2): with symbolic kinds each harness needs 3-6 M SAT variables and
/// 5-15 min; with a concrete shape it is seconds, so shapes are enumerated as separate harnesses.
pub(crate) fn tiling<const N: usize>(kinds: [Kind; N], max_pages: u8) -> Tiling<N> {
    let mut t = Tiling {
        layout: Layout::default(),
        end: 0,
        regions: core::array::from_fn(|i| vr::mk_detached(i, vm::mk_meta("r", 0, 0, PAGE_SIZE, 0))),
        kinds,
        starts: [0; N],
        sizes: [0; N],
    };
    let mut cursor = 0usize;
    let mut prev_hole = false;
    let mut i = 0;
    while i < N {
        let pages: u8 = kani::any();
        kani::assume(pages >= 1 && pages <= max_pages);
        let size = (pages as usize) * PAGE_SIZE;
        match kinds[i] {
            Kind::Free => {}
            Kind::Region => {
                let len: usize = kani::any();
                kani::assume(len <= size);
                vr::set_geom(&t.regions[i], cursor, len, size);
                t.layout.start_to_region.verif_push_back(cursor, t.regions[i].clone());
            }
            Kind::Hole => {
                assert!(!prev_hole, "shape has adjacent promoted holes");
                t.layout.insert_hole(cursor, size);
            }
            Kind::Pending => {
                t.layout.pending_holes.verif_push_back(cursor, size);
            }
            Kind::Reserved => {
                t.layout.start_to_reserved.verif_push_back(cursor, size);
            }
        }
        if kinds[i] != Kind::Free {
            t.starts[i] = cursor;
            t.sizes[i] = size;
            cursor += size;
            prev_hole = kinds[i] == Kind::Hole;
        }
        i += 1;
    }
    t.end = cursor;
    t
}

fn any_addr() -> usize {
    let w: usize = kani::any();
    kani::assume(w < 64 * PAGE_SIZE);
    w
}

fn any_index<const N: usize>(kinds: &[Kind; N], want: Kind) -> usize {
    let i: usize = kani::any();
    kani::assume(i < N);
    kani::assume(kinds[i] == want);
    i
}

/// generator sanity (part of every body): the shape is an INV state
fn check_inv<const N: usize>(t: &Tiling<N>, w: usize) {
    let c = classify(&t.layout, w);
    assert!(if w < t.end { c.n == 1 } else { c.n == 0 });
    assert!(structure_ok(&t.layout));
}

// ---------------------------------------------------------------------------------------------
// contracts (generic over the shape)
// ---------------------------------------------------------------------------------------------

/// len() = end of the allocated area; is_last_anything(r) <=> r's extent is the last extent
fn body_len_last<const N: usize>(kinds: [Kind; N]) {
    let t = tiling(kinds, 8);
    check_inv(&t, any_addr());
    assert!(t.layout.len() == t.end);
    let i = any_index(&kinds, Kind::Region);
    let is_last = t.starts[i] + t.sizes[i] == t.end;
    assert!(t.layout.is_last_anything(&t.regions[i]) == is_last);
    kani::cover!(true, "end of harness reachable");
}

/// best fit: Some(start of a smallest promoted hole with size >= min), None iff none adequate
fn body_find<const N: usize>(kinds: [Kind; N]) {
    let t = tiling(kinds, 4);
    check_inv(&t, any_addr());
    let pages: u8 = kani::any();
    kani::assume(pages >= 1 && pages <= 5);
    let min = pages as usize * PAGE_SIZE;
    let got = t.layout.find_smallest_adequate_hole(min);
    let mut best: Option<usize> = None;
    let mut i = 0;
    while i < N {
        if kinds[i] == Kind::Hole && t.sizes[i] >= min {
            best = Some(match best {
                Some(b) if b <= t.sizes[i] => b,
                _ => t.sizes[i],
            });
        }
        i += 1;
    }
    match got {
        None => assert!(best.is_none()),
        Some(s) => {
            // it is the start of a promoted hole of the best size
            let mut is_hole_start = false;
            let mut k = 0;
            while k < N {
                if kinds[k] == Kind::Hole && t.starts[k] == s {
                    is_hole_start = true;
                    assert!(Some(t.sizes[k]) == best);
                }
                k += 1;
            }
            assert!(is_hole_start);
        }
    }
    kani::cover!(got.is_some(), "adequate hole found");
}

/// remove_or_compress_hole(start, by)
fn body_compress<const N: usize>(kinds: [Kind; N]) {
    let mut t = tiling(kinds, 4);
    let i = any_index(&kinds, Kind::Hole);
    let pages: u8 = kani::any();
    kani::assume(pages >= 1 && pages <= 5);
    let by = pages as usize * PAGE_SIZE;
    let (hs, hz) = (t.starts[i], t.sizes[i]);
    let w = any_addr();
    let before = classify(&t.layout, w);
    let r = t.layout.remove_or_compress_hole(hs, by);
    let after = classify(&t.layout, w);
    if by <= hz {
        assert!(r.is_ok());
        if w >= hs && w < hs + by {
            assert!(after.n == 0);
        } else if w >= hs + by && w < hs + hz {
            assert!(after.n == 1 && after.kind == Kind::Hole && after.start == hs + by && after.size == hz - by);
        } else {
            assert!(after == before);
        }
        assert!(structure_ok(&t.layout));
        kani::cover!(by < hz, "hole split");
        kani::cover!(by == hz, "hole consumed");
    } else {
        assert!(r.is_err());
    }
    core::mem::forget(r);
}

/// remove_region: reserved extent becomes a pending hole, not offered by best fit
fn body_remove<const N: usize>(kinds: [Kind; N]) {
    let mut t = tiling(kinds, 4);
    let i = any_index(&kinds, Kind::Region);
    let r = t.regions[i].clone();
    let w = any_addr();
    let before = classify(&t.layout, w);
    let res = t.layout.remove_region(&r);
    assert!(res.is_ok());
    let after = classify(&t.layout, w);
    if w >= t.starts[i] && w < t.starts[i] + t.sizes[i] {
        assert!(after.n == 1 && after.kind == Kind::Pending && after.start == t.starts[i] && after.size == t.sizes[i]);
    } else {
        assert!(after == before);
    }
    assert!(structure_ok(&t.layout));
    assert!(t.layout.len() == t.end);
    if let Some(s) = t.layout.find_smallest_adequate_hole(PAGE_SIZE) {
        assert!(s != t.starts[i]);
    }
    kani::cover!(true, "end of harness reachable");
    core::mem::forget(res);
}

/// promote_pending_holes
fn body_promote<const N: usize>(kinds: [Kind; N]) {
    let mut t = tiling(kinds, 3);
    let w = any_addr();
    check_inv(&t, w);
    let before = classify(&t.layout, w);
    t.layout.promote_pending_holes("db");
    let after = classify(&t.layout, w);
    assert!(t.layout.pending_holes.is_empty());
    match before.kind {
        Kind::Pending | Kind::Hole => {
            assert!(after.n == 1 && after.kind == Kind::Hole);
            assert!(after.start <= before.start && after.start + after.size >= before.start + before.size);
            // the merged hole consists of free bytes only: it never covers a region/reservation
            let mut i = 0;
            while i < N {
                if kinds[i] == Kind::Region || kinds[i] == Kind::Reserved {
                    assert!(t.starts[i] + t.sizes[i] <= after.start || after.start + after.size <= t.starts[i]);
                }
                i += 1;
            }
            // maximal: its neighbours are not free
            if after.start > 0 {
                let l = classify(&t.layout, after.start - 1);
                assert!(l.kind != Kind::Hole);
            }
            let rr = classify(&t.layout, after.start + after.size);
            assert!(rr.kind != Kind::Hole);
        }
        _ => assert!(after == before),
    }
    assert!(structure_ok(&t.layout));
    assert!(t.layout.len() == t.end);
    kani::cover!(true, "end of harness reachable");
}

/// reserve(end) + move_region + take_reserved
fn body_move<const N: usize>(kinds: [Kind; N]) {
    let mut t = tiling(kinds, 3);
    let i = any_index(&kinds, Kind::Region);
    let r = t.regions[i].clone();
    let pages: u8 = kani::any();
    kani::assume(pages >= 1 && pages <= 4);
    let new_res = pages as usize * PAGE_SIZE;
    let new_start = t.layout.len();
    t.layout.reserve(new_start, new_res);
    assert!(t.layout.len() == new_start + new_res);
    let w = any_addr();
    let before = classify(&t.layout, w);
    let res = t.layout.move_region(new_start, &r);
    assert!(res.is_ok());
    assert!(t.layout.take_reserved(new_start) == Some(new_res));
    vr::set_geom(&r, new_start, 0, new_res);
    let after = classify(&t.layout, w);
    if w >= t.starts[i] && w < t.starts[i] + t.sizes[i] {
        assert!(after.n == 1 && after.kind == Kind::Pending);
    } else if w >= new_start && w < new_start + new_res {
        assert!(before.n == 1 && before.kind == Kind::Reserved);
        assert!(after.n == 1 && after.kind == Kind::Region && after.index == r.index());
    } else {
        assert!(after == before);
    }
    assert!(structure_ok(&t.layout));
    core::mem::forget(res);
}

macro_rules! shapes {
    ($body:ident; $( $name:ident = [$($k:ident),*]; )*) => {
        $(
            #[kani::proof]
            #[kani::unwind(7)]
            #[kani::stub(alloc::fmt::format, stubs::format_stub)]
            fn $name() {
                $body([$(Kind::$k),*]);
            }
        )*
    };
}
use Kind::{Free as F, Hole as Hl, Pending as P, Region as R, Reserved as S};
const _: (Kind, Kind, Kind, Kind, Kind) = (F, Hl, P, R, S);

shapes! { body_len_last;
    c02_l1_lastq_rp = [Region, Pending];
    c02_l1_lastq_rs = [Region, Reserved];
    c02_l1_lastq_rh = [Region, Hole];
    c02_l1_last_hr = [Hole, Region];
    c02_l1_lastq_rr = [Region, Region];
    c02_l1_last_prs = [Pending, Region, Reserved];
    c02_l1_last_rhp = [Region, Hole, Pending];
    c02_l1_last_rpr = [Region, Pending, Region];
    c02_l1_last_shr = [Reserved, Hole, Region];
}
shapes! { body_find;
    c02_l1_find_hrhr = [Hole, Region, Hole, Region];
    c02_l1_find_rhph = [Region, Hole, Pending, Hole];
    c02_l1_find_hrhrh = [Hole, Region, Hole, Region, Hole];
    c02_l1_find_rpr = [Region, Pending, Region];
}
shapes! { body_compress;
    c02_l1_compress_rhrh = [Region, Hole, Region, Hole];
    c02_l1_compress_hphr = [Hole, Pending, Hole, Region];
    c02_l1_compress_hrhrh = [Hole, Region, Hole, Region, Hole];
}
shapes! { body_remove;
    c02_l1_remove_rhrp = [Region, Hole, Region, Pending];
    c02_l1_remove_hrrh = [Hole, Region, Region, Hole];
    c02_l1_remove_rrs = [Region, Region, Reserved];
    c02_l1_remove_prh = [Pending, Region, Hole];
}
shapes! { body_promote;
    c02_l1_promoteq_hprh = [Hole, Pending, Region, Hole];
    c02_l1_promoteq_hphr = [Hole, Pending, Hole, Region];
    c02_l1_promote_rphr = [Region, Pending, Hole, Region];
    c02_l1_promoteq_rprp = [Region, Pending, Region, Pending];
    c02_l1_promoteq_pprh = [Pending, Pending, Region, Hole];
    c02_l1_promote_hpph = [Hole, Pending, Pending, Hole];
    c02_l1_promote_rhpr = [Region, Hole, Pending, Region];
    c02_l1_promote_hrph = [Hole, Region, Pending, Hole];
    c02_l1_promote_hprhr = [Hole, Pending, Region, Hole, Region];
    c02_l1_promote_rr = [Region, Region];
}
shapes! { body_move;
    c02_l1_move_rhr = [Region, Hole, Region];
    c02_l1_move_rrph = [Region, Region, Pending, Hole];
    c02_l1_move_hr = [Hole, Region];
}


// ---- builders used by world.rs ----
pub(crate) fn put_hole(l: &mut Layout, start: usize, size: usize) {
    l.insert_hole(start, size);
}
pub(crate) fn put_pending(l: &mut Layout, start: usize, size: usize) {
    l.pending_holes.verif_push_back(start, size);
}
pub(crate) fn put_reserved(l: &mut Layout, start: usize, size: usize) {
    l.start_to_reserved.verif_push_back(start, size);
}
pub(crate) fn n_reserved(l: &Layout) -> usize {
    l.start_to_reserved.len()
}
pub(crate) fn n_pending(l: &Layout) -> usize {
    l.pending_holes.len()
}
pub(crate) fn n_holes(l: &Layout) -> usize {
    l.start_to_hole.len()
}
pub(crate) fn n_regions(l: &Layout) -> usize {
    l.start_to_region.len()
}

/// Stub for `Layout::promote_pending_holes` in operation-level harnesses (the real function is
/// decided by the c02_l1_promote_* harnesses): records *when* promotion happens as a ghost event
/// and performs the promotion without coalescing (sufficient for the callers' post-conditions).
pub(crate) fn promote_stub(l: &mut Layout, _name: &str) {
    anydb_verif_platform::ghost::log(anydb_verif_platform::ghost::K::Pause, 99, l.pending_holes.len(), 0);
    l.pending_holes.clear();
}
