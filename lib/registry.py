"""Harness registry (which harnesses decide which property, at which tier, with which caps) and
the evidence writer."""
import os, json

from runner import Harness
import gentree

H = Harness
REG = []


def reg(*hs):
    REG.extend(hs)


FMT = "alloc::fmt::format -> String::new() (message text is never part of a property)"
WCAP0 = "Vec::with_capacity / Vec::reserve -> allocation-bounding stubs (panic on capacity overflow like the real ones, assert n <= 8, allocate concrete capacity)"
TOVEC = "<[T]>::to_vec -> bounded copy into a concrete-capacity Vec (asserts len <= 8)"

# ---------------------------------------------------------------------------------------------
# C17 codecs
# ---------------------------------------------------------------------------------------------
reg(
    H("c17_meta_from_bytes_any_slot", "rawdb", "C17", mem=16, timeout=600, memsafe=True,
      desc="RegionMetadata::from_bytes on a fully symbolic 4096-byte slot returns Err or a value "
           "satisfying the validity rules and echoing the encoded fields; no panic/overflow/OOB",
      bounds="slot = 4096 symbolic bytes; id_len <= 4 or > 1024 (ids of 5..1024 bytes outside)",
      functions=["rawdb::RegionMetadata::from_bytes", "String::from_utf8"],
      stubs=[FMT, TOVEC], assumes=["id_len <= 4 || id_len > 1024"]),
)
reg(
    H("c17_num_", "vecdb", "C17", group=True, mem=6, timeout=1500, memsafe=True,
      desc="Bytes for u8..u128, i8..i128, usize, isize, f32, f64: from_bytes(to_bytes(x)) is bit-exact for every bit pattern (floats as bits, all NaN payloads); any slice whose length differs from size_of is rejected without panic",
      bounds="all 2^w values per type (w = 8..128); input slices of 0..17 arbitrary bytes", functions=["vecdb::Bytes for numeric types (bytes/numeric.rs)"], stubs=[FMT]),
    H("c17_arr_", "vecdb", "C17", group=True, mem=6, timeout=900, memsafe=True,
      desc="Bytes for [u8; N], N in {1,3,33,65}: round trip at a symbolic position; wrong length rejected",
      bounds="N in {1,3,33,65}; arbitrary contents", functions=["vecdb::Bytes for [u8; N] (bytes/array.rs)"], stubs=[FMT]),
    H("c17_page_format_stamp_version", "vecdb", "C17", mem=6, timeout=600, memsafe=True,
      desc="Page (raw/compressed constructors, raw flag, 16-byte codec), Format (exactly tags 0,1,64,65,66 decode, each to itself), Stamp, Version: round trips for all field values; truncated or arbitrary bytes give Err or the echoed value, never a panic",
      bounds="all field values (u64/u32/u32 with values < 2^31); inputs of 0..17 arbitrary bytes", functions=["vecdb::Page::{raw,compressed,is_raw,values_count,to_bytes,from_bytes}", "vecdb::Format::{to_bytes,from_bytes}", "Stamp/Version Bytes"], stubs=[FMT]),
    H("c17_header_roundtrip_and_garbage", "vecdb", "C17", mem=6, timeout=600, memsafe=True,
      desc="HeaderInner: from_bytes(to_bytes(h)) = h for all versions/stamps/formats; arbitrary bytes of length 0..HEADER_OFFSET+1 give Err or a header echoing the bytes with a valid format tag",
      bounds="all field values; inputs 0..33 arbitrary bytes", functions=["vecdb::HeaderInner::{to_bytes,from_bytes}"], stubs=[FMT]),
    H("c17_change_cursor_bounds", "vecdb", "C17", mem=6, timeout=600, memsafe=True, also=("C16",),
      desc="ChangeCursor::{skip,read_values}: symbolic 64-bit counts and element sizes never overflow or read past the input (checked_mul / checked_add guard every read)",
      bounds="input 0..16 arbitrary bytes; count any usize; element size in {4,8,16,usize::MAX/2}", functions=["vecdb::ChangeCursor::{skip,read_values,check_remaining}"], stubs=[FMT, WCAP0]),
    H("c16_parse_change_data_any_bytes", "vecdb", "C17", mem=44, timeout=3000, tier="extended", also=("C16", "C13"),
      desc="parse_change_data on an arbitrary byte string: Err(WrongLength|Overflow|Underflow) or a ChangeData whose vectors fit inside the input and echo its fields; no panic, allocation bounded by the input",
      bounds="record = 0..56 arbitrary bytes (truncation at every offset and arbitrary length fields included); element size 4", functions=["vecdb::ReadWriteBaseVec::parse_change_data", "vecdb::ChangeCursor"], stubs=[FMT, WCAP0]),
)


# ---------------------------------------------------------------------------------------------
# C02 Level 1: real Layout operations over the model maps, arbitrary INV layout (tiling)
# ---------------------------------------------------------------------------------------------
L1B = ("arbitrary INV layout of a concrete *shape* (sequence of 2-5 consecutive extents: region / promoted hole / "
       "pending hole / reservation) with symbolic sizes 1..3|4|8 pages and symbolic region lengths; model map "
       "capacity 4; one symbolic byte address w (pointwise oracle, universally quantified); symbolic choice of "
       "the operated region/hole among those of the shape")
for (n, d, f, shapes) in [
    ("c02_l1_lastq_", "Layout::len() = end of the allocated area whichever kind of extent is last; is_last_anything(r) <=> r's extent is the last extent (no hole, pending hole or reservation behind it)",
     ["rawdb::Layout::len", "rawdb::Layout::is_last_anything"], "RP RS RH RR"),
    ("c02_l1_last_", "same contract, further shapes",
     ["rawdb::Layout::len", "rawdb::Layout::is_last_anything"], "HR PRS RHP RPR SHR"),
    ("c02_l1_find_", "find_smallest_adequate_hole(min) = start of a smallest promoted hole with size >= min, None iff none (pending holes and reservations are never offered)",
     ["rawdb::Layout::find_smallest_adequate_hole"], "HRHR RHPH HRHRH RPR"),
    ("c02_l1_compress_", "remove_or_compress_hole(start, by): first `by` bytes leave the free index, remainder stays one hole, every other byte keeps its classification; too small => Err",
     ["rawdb::Layout::remove_or_compress_hole", "rawdb::Layout::{insert_hole,remove_hole}"], "RHRH HPHR HRHRH"),
    ("c02_l1_remove_", "remove_region: the region's reserved extent becomes a pending (not yet reusable) hole; nothing else changes; best-fit search never returns it; len() unchanged",
     ["rawdb::Layout::remove_region"], "RHRP HRRH RRS PRH"),
    ("c02_l1_promoteq_", "promote_pending_holes: pending -> promoted, coalesced with both neighbours into a maximal free extent; no byte changes between free and used; no promoted hole overlaps a live region; no two promoted holes adjacent; hole index stays the exact inverse",
     ["rawdb::Layout::promote_pending_holes"], "HPRH HPHR RPRP PPRH"),
    ("c02_l1_promote_", "same contract, further shapes",
     ["rawdb::Layout::promote_pending_holes"], "RPHR HPPH RHPR HRPH HPRHR RR"),
    ("c02_l1_move_", "reserve(end) + move_region + take_reserved: old extent becomes pending, region keyed at the reserved target, reservation consumed, len() accounts for the reservation",
     ["rawdb::Layout::{reserve,take_reserved,move_region,insert_region}"], "RHR RRPH HR"),
]:
    if n in ("c02_l1_lastq_", "c02_l1_promoteq_"):
        # quick-tier shapes: one invocation per shape so that they run in parallel (900 s budget)
        qf = {"c02_l1_lastq_": {"C02", "C05", "C10", "C12"}, "c02_l1_promoteq_": {"C02", "C01", "C05", "C10", "C12"}}[n]
        for sh in shapes.split():
            reg(H(n + sh.lower(), "rawdb", "C02", mem=8, timeout=800, desc=d + " [shape: " + sh + "]",
                  bounds=L1B, functions=f, stubs=[FMT], also=("C01", "C05", "C10", "C12"), quick_for=qf))
    else:
        reg(H(n, "rawdb", "C02", mem=8, timeout=2400, group=True, desc=d + " [shapes: " + shapes + "]",
              bounds=L1B, functions=f, stubs=[FMT], also=("C01", "C05", "C10", "C12"),
              quick_for={"c02_l1_last_": set(), "c02_l1_promote_": set(), "c02_l1_find_": set(),
                         "c02_l1_compress_": {"C02"}, "c02_l1_remove_": set(), "c02_l1_move_": set()}[n]))


# ---------------------------------------------------------------------------------------------
# Level 2: real rawdb operations on a Database built directly (real Layout, real metadata)
# ---------------------------------------------------------------------------------------------
# ---------------------------------------------------------------------------------------------
# C15 lazy vectors
# ---------------------------------------------------------------------------------------------
WCAP = "Vec::with_capacity / Vec::reserve -> allocation-bounding stubs (assert n <= 8, allocate concrete capacity)"
C15B = "sources = in-memory mock ReadableVecs with symbolic contents and symbolic (unequal) lengths <= 3; symbolic (from,to) incl. reversed, out of bounds, usize::MAX; symbolic probe index"
reg(
    H("c15_from2_range_reads", "vecdb", "C15", mem=8, timeout=900,
      desc="LazyVecFrom2: len = min of governing sources; collect_range/fold/try_fold/for_each_range_dyn/collect_one return exactly compute(i, s1[i], s2[i]) for the clamped range",
      bounds=C15B, functions=["vecdb::LazyVecFrom2 as ReadableVec (read_into_at, for_each_range_dyn_at, fold_range_at, try_fold_range_at, collect_one_at)", "vecdb::ReadableVec default methods"], stubs=[WCAP]),
    H("c15_from1_from3_reads", "vecdb", "C15", mem=8, timeout=900,
      desc="LazyVecFrom1 and LazyVecFrom3 (middle source indexed by a foreign index type, not governing): range and point reads equal the formula",
      bounds=C15B + "; the non-governing source is at least as long as the governing length", functions=["vecdb::LazyVecFrom1", "vecdb::LazyVecFrom3"], stubs=[WCAP],
      assumes=["non-governing (foreign index) source length >= governing length"]),
    H("c15_from2_sorted_reads", "vecdb", "C15", mem=8, timeout=900,
      desc="LazyVecFrom2::read_sorted_at for sorted index pairs incl. duplicates equals the formula per index",
      bounds=C15B + "; 2 sorted indices", functions=["vecdb::LazyVecFrom2::read_sorted_into_at", "vecdb::Cursor (default read_sorted_into_at of the sources)"], stubs=[WCAP]),
)


# ---------------------------------------------------------------------------------------------
# Level 2: real rawdb operations on a Database built directly (real Layout, real metadata)
# ---------------------------------------------------------------------------------------------
SLOT = "RegionMetadata::write_if_dirty: cfg(kani) hook records the slot write as a ghost event with the decoded fields (the 4 KiB encoding is decided separately by the C17 codec harnesses)"
SBG = "Database::sync_bg_tasks -> Ok(()) (background tasks outside every claim)"
L2B = ("database world of a concrete shape with concrete extent sizes in pages (listed in the harness name: r/x = region, "
       "h = promoted hole, p = pending hole; x = the region written to); symbolic: region content lengths, metadata "
       "dirty states, dirty bounds, file length (end..end+2 pages), entry point (write / write_at / truncate_write), "
       "offset `at` (0..reserved+1), data length 0..5 pages, file-growth failure; ghost-mode data file (bytes not "
       "modelled: writes/copies are events); one symbolic byte address for the pointwise layout oracle")
L2F = ["rawdb::Region::write_with (write, write_at, truncate_write)", "rawdb::Database::{write,copy,set_min_len}",
       "rawdb::Layout::{is_last_anything,get_hole,remove_or_compress_hole,find_smallest_adequate_hole,reserve,take_reserved,move_region,len}",
       "rawdb::RegionMetadata::{set_len,set_start,set_reserved,write_if_dirty,to_bytes}", "rawdb::Regions::write_at",
       "rawdb::write_to_mmap (ghost hook)"]
WD = ("one real write step from an arbitrary INV state: placement algebra (new start/len/reserved, exactly one data write at "
      "new_start+offset, old bytes copied iff relocated, copy before write before slot), frame (no other region's extent or "
      "metadata touched), INV re-established pointwise, best-fit reuse, slot written with final values; refused write "
      "(offset beyond end / growth failure) has no effect")
# Write shapes: each takes ~20 min and 35-40 GB on this box, so only the shapes that were run to completion here
# are in the thorough tier (and only the listed ones count for the other properties they also decide); the rest
# are "extended" (bin/check C01 --tier extended), same oracle, not referenced by MANIFEST.
for (n, t, also) in [("c01_write_x1h4r1", "thorough", ("C02",)), ("c01_write_x1p1", "thorough", ("C05",)),
                     ("c01_write_r1x1", "thorough", ("C13",)),
                     ("c01_write_x1h1r1", "extended", ()), ("c01_write_x1r1h2r1h4", "extended", ()), ("c01_write_x1r1h2", "extended", ()),
                     ("c01_write_x2r1", "extended", ()), ("c01_write_h1x1r1", "extended", ()), ("c01_write_x1h2p1", "extended", ())]:
    reg(H(n, "rawdb", "C01", mem=46, timeout=3600, tier=t, desc=WD, bounds=L2B, functions=L2F, stubs=[FMT, SBG, SLOT], also=also))

L2M = ("database world of concrete shape and extent sizes (2-3 extents); symbolic region content lengths, metadata states, "
       "dirty bounds, file length, operation arguments; ghost-mode files")
reg(
    H("c01_truncate_step", "rawdb", "C01", mem=12, timeout=900, also=("C13", "C11"), quick_for={"C01", "C13", "C11"},
      desc="Region::truncate(from) from an arbitrary state: from < len sets the length and writes exactly the slot; from == len is a no-op; from > len is refused with no effect; layout, other regions, data bytes untouched; no lock left held",
      bounds=L2M + "; from any usize", functions=["rawdb::Region::truncate", "rawdb::RegionMetadata::{set_len,write_if_dirty}"], stubs=[FMT, SBG, SLOT, TOVEC]),
    H("c01_rename_step", "rawdb", "C01", mem=14, timeout=900, also=("C13", "C11"), quick_for={"C01", "C13", "C11"},
      desc="Region::rename: onto a fresh name updates name index + metadata + slot; onto an existing name (another region's or its own) is refused and changes nothing (index, metadata id, dirty state, no event)",
      bounds=L2M + "; target name in {other region's, own, fresh}; one-byte names", functions=["rawdb::Region::rename", "rawdb::Regions::rename", "rawdb::RegionMetadata::set_id"], stubs=[FMT, SBG, SLOT, TOVEC]),
    H("c01_remove_step", "rawdb", "C01", mem=30, timeout=1800, also=("C02", "C05", "C12"), tier="thorough",
      desc="Region::remove (no other handle): extent becomes a *pending* hole (bytes intact until flush), name and slot freed, slot zeroed on disk, nothing else changes, INV holds",
      bounds=L2M + " [R1 x2 H1]", functions=["rawdb::Region::remove", "rawdb::Layout::remove_region", "rawdb::Regions::remove"], stubs=[FMT, SBG, SLOT, TOVEC]),
    H("c01_remove_last_step", "rawdb", "C01", mem=30, timeout=1800, also=("C02",), tier="thorough",
      desc="Region::remove of the last region behind a hole", bounds=L2M + " [H1 x1]",
      functions=["rawdb::Region::remove"], stubs=[FMT, SBG, SLOT, TOVEC]),
    H("c13_remove_refused_no_effect", "rawdb", "C13", mem=36, timeout=2400, also=("C02",), tier="thorough",
      desc="Region::remove while another handle to the region is alive is refused (RegionStillReferenced) and has no effect: layout classification of every byte, name index, slot table unchanged, no event",
      bounds=L2M + " [R1 x2 H1], one extra live handle", functions=["rawdb::Region::remove", "rawdb::Layout::remove_region", "rawdb::Regions::remove"], stubs=[FMT, SBG, SLOT, TOVEC]),
)

reg(
    H("c18_open_refusal_has_no_effect", "rawdb", "C18", mem=12, timeout=1200,
      desc="Database::open_with_min_len on the file-system model with symbolic data-file length, symbolic min_len and symbolic 'lock held by another holder' flags for both files: no file is ever opened with truncate(true); the lock attempt on the data file precedes every resize/sync; an open refused because the data file is locked has resized, synced and written nothing; a successful open holds both locks and leaves the data file at max(len, min_len)",
      bounds="data file 0..8 pages (page multiples), min_len 0..16 pages, empty regions file; advisory lock modelled as a flag per file (try_lock fails iff another holder has it)",
      functions=["rawdb::Database::open_with_min_len", "rawdb::Regions::open", "rawdb::mmap::create_mmap"],
      stubs=[FMT, SBG, "std::path::Path::file_name -> None (display name only)", "std::path::Path::join -> last component (the fs model identifies files by open order)",
             "rawdb::Regions::fill -> Ok(()) (runs after both locks; empty regions file)", "<[u8]>::to_vec -> bounded copy (8)"]),
)

reg(
    H("c18_lock_lives_with_last_handle", "rawdb", "C18", mem=12, timeout=1200, features="verif_teardown",
      desc="open, clone the handle, optionally take a read-only file for an external consumer, drop the handles one by one (the Arc model runs the real drop glue of DatabaseInner when the last strong reference goes): both advisory locks are held while any handle is alive and released with the last one, even while the consumer still holds its read-only file (which must therefore be a separate open file description)",
      bounds="data file 0..8 pages, empty regions file; fs model: a lock lives until the last handle on the locking open-file description is dropped (flock semantics), try_clone shares the description, open creates a new one",
      functions=["rawdb::Database::{open_with_min_len,open_read_only_file,clone,drop}", "rawdb::Regions::open", "drop glue of DatabaseInner / Regions"],
      stubs=[FMT, SBG, "std::path::Path::file_name -> None", "std::path::Path::join -> last component", "rawdb::Regions::fill -> Ok(())", "<[u8]>::to_vec -> bounded copy (8)"]),
)

PROM = "Layout::promote_pending_holes -> stub that records a ghost 'promote' event and empties the pending map (the real function is decided by c02_l1_promote_*)"
reg(
    H("c05_flush_order", "rawdb", "C05", mem=30, timeout=2400, tier="thorough", also=("C12",),
      desc="Database::flush from an arbitrary state (2 regions with symbolic dirty states/bounds, 1 pending hole), with symbolic sync/flush failures: data async-flush range covers every dirty byte; regions async flush; fdatasync(data) strictly before fdatasync(regions); regions marked clean only after both; pending holes promoted only after both syncs (last effect) and never on a failed flush; no data/slot/length event; no lock left held",
      bounds=L2M + " [R1 R1 P1]; fault flags fail_sync, fail_flush symbolic", functions=["rawdb::Database::flush", "rawdb::Regions::{flush,sync_data}", "rawdb::Region::{take_dirty_bounds,restore_dirty_bounds}", "rawdb::RegionMetadata::{needs_flush,mark_clean}"],
      stubs=[FMT, SBG, PROM], assumes=["a region in state NEEDS_WRITE (never written) has no dirty data range"]),
    H("c11_flush_lock_order", "rawdb", "C11", mem=30, timeout=2400, tier="thorough",
      desc="lock tap over Database::flush: every lock request happens while only locks of strictly smaller class (layout < regions < mmap < file < meta < dirty_bounds) are held, no held lock is requested again, nothing held at return",
      bounds=L2M + " [R1 P1]", functions=["rawdb::Database::flush (all lock acquisitions)"], stubs=[FMT, SBG, PROM]),
    H("c11_compact_lock_order", "rawdb", "C11", mem=30, timeout=3000, tier="thorough",
      desc="lock tap over Database::compact (flush + punch_holes): same obligations; in particular the file read guard is released before file() is taken again for the final sync",
      bounds=L2M + " [R2 H1]", functions=["rawdb::Database::{compact,punch_holes,approx_has_punchable_data}", "rawdb::HolePunch::punch"], stubs=[FMT, SBG, PROM]),
    H("c12_compact_step", "rawdb", "C12", mem=36, timeout=3000, tier="thorough",
      desc="Database::compact from an arbitrary state: every punched range is page aligned and lies in the unused tail of a region's reserve or in a promoted hole; never intersects a byte below ceil_page(len) of a live region; no region geometry changes; no SetLen (KEEP_SIZE asserted at the libc model); no lock left held",
      bounds=L2M + " [R2 H1 R1 P1]; pread samples symbolic", functions=["rawdb::Database::{compact,flush,punch_holes,approx_has_punchable_data}", "rawdb::HolePunch::punch"], stubs=[FMT, SBG, PROM]),
)
for (n, q) in [("c02_create_r1h2r1h1", False), ("c02_create_r1p1", False), ("c02_create_r1r1", False)]:
    reg(H(n, "rawdb", "C02", mem=30, timeout=2400, tier="extended", also=("C01",),
          desc="Database::create_region_if_needed: a new region is placed at the start of a smallest promoted hole if one exists (pending holes are not reused), else at the end with the file grown first; registered under its name in the first free slot; existing name returns the existing region with no effect; growth failure has no effect; INV pointwise",
          bounds=L2M + "; name existing/new, growth failure symbolic", functions=["rawdb::Database::{create_region_if_needed,set_min_len}", "rawdb::Regions::create", "rawdb::Layout::{find_smallest_adequate_hole,remove_or_compress_hole,insert_region}"], stubs=[FMT, SBG, SLOT, TOVEC]))

# ---------------------------------------------------------------------------------------------
# C06 / C19: EagerVec generic compute code over the storage model
# ---------------------------------------------------------------------------------------------
C06B = ("inductive one-call form: source = mock ReadableVec (symbolic u32 contents, length <= 3), output = EagerVec over the storage "
        "model in an arbitrary state (length p <= 3 split arbitrarily into stored/pushed, prefix c correct w.r.t. the current source, "
        "rest arbitrary = stale), call with symbolic max_from <= c; window 1..4 where applicable; MAX_CACHE_SIZE at its real value "
        "(single batch)")
for (n, d, f, q) in [
    ("c06_transform_step", "compute_transform: afterwards len = source len and out[k] = f(k, src[k]) for a symbolic k", ["vecdb::EagerVec::{compute_transform,compute_init,repeat_until_complete,batch_end}", "vecdb::WritableVec::{validate_computed_version_or_reset,checked_push_at,truncate_if_needed}"], True),
    ("c06_sum_step", "compute_sum (fixed window, leaving-value cursor): equals the from-scratch windowed sum", ["vecdb::EagerVec::compute_sum", "vecdb::Cursor"], False),
    ("c06_max_step", "compute_max (monotonic deque rebuilt on resume): equals the from-scratch windowed maximum", ["vecdb::EagerVec::{compute_max,compute_monotonic_window}"], False),
    ("c06_add_step", "compute_add over two sources of unequal lengths: equals a[i]+b[i] up to the shorter source", ["vecdb::EagerVec::{compute_add,compute_transform2}"], True),
    ("c06_change_step", "compute_change (fixed look-back 1..3) on a non-decreasing series: equals src[i] - src[i-len] (0 during warm-up)", ["vecdb::EagerVec::{compute_change,compute_with_lookback}"], True),
    ("c06_lookback_step", "compute_lookback (variable monotone window starts): equals src[starts[i]]", ["vecdb::EagerVec::compute_lookback"], False),
    ("c06_cumulative_binary_step", "compute_cumulative_binary over two sources: equals the running sum of a[i]+b[i] up to the shorter source", ["vecdb::EagerVec::{compute_cumulative_binary,compute_cumulative_transformed_binary}"], False),
    ("c06_all_time_high_step", "compute_all_time_high: equals the from-scratch running maximum (resumes from the stored value)", ["vecdb::EagerVec::{compute_all_time_high,compute_all_time_extreme}"], True),
    ("c06_cumulative_step", "compute_cumulative: equals the from-scratch prefix sum", ["vecdb::EagerVec::compute_cumulative"], True),
]:
    # the two windowed aggregates do not complete on this box (sum: > 30 min, max: > 24 GB): extended tier
    heavy = n in ("c06_sum_step", "c06_max_step")
    reg(H(n, "vecdb", "C06", mem=40 if heavy else 10, timeout=3000 if heavy else 1200,
          tier="quick" if q else ("extended" if heavy else "thorough"), desc=d, bounds=C06B, functions=f,
          stubs=[FMT, WCAP0], assumes=["max_from <= c (the caller's obligation in the statement)", "c <= source length"]))
reg(H("c19_version_persist_step", "vecdb", "C19", mem=10, timeout=1500,
      desc="validate_computed_version_or_reset followed by write(): the presented combined version is recorded, marks the header modified exactly when it changed, resets exactly when it changed and results existed, is persisted by the next write, and a second call with the same version is a no-op",
      bounds="storage model in an arbitrary state (length <= 3); recorded < 2000, dependency version < 1000",
      functions=["vecdb::WritableVec::validate_computed_version_or_reset", "vecdb::Header::{update_computed_version,modified}"], stubs=[FMT, WCAP0]))
reg(H("c19_version_step", "vecdb", "C19", mem=10, timeout=1500,
      desc="compute_transform with symbolic recorded vs presented combined version: changed => everything discarded (reset) and re-evaluated from index 0, new version recorded and marked for write-back; unchanged => nothing below min(max_from, len) re-evaluated or altered, no reset",
      bounds=C06B + "; source version < 1000, recorded version < 2000 (any relation: equal, higher, lower)",
      functions=["vecdb::WritableVec::validate_computed_version_or_reset", "vecdb::Header::{update_computed_version,modified,computed_version}", "vecdb::EagerVec::compute_init"],
      stubs=[FMT, WCAP0]))


# ---------------------------------------------------------------------------------------------
# vecdb raw formats in contract mode (real ReadWriteRawVec over a tiny real data file)
# ---------------------------------------------------------------------------------------------
CMB = ("contract mode: ReadWriteRawVec<usize,u32,BytesStrategy> built directly over a 48-byte symbolic data file (rawdb: one region "
       "at offset 0, allocator cut); on-disk elements <= 3, stored_len symbolic (<= on-disk: equal or truncated), pushed <= 2, "
       "deleted slots <= 1-2 symbolic indices, updated slots <= 1-2 symbolic (index, value), never both for one index; "
       "symbolic (from,to) incl. reversed/out of bounds/usize::MAX; symbolic probe index")
CMS = [FMT, WCAP0, SBG, "rawdb::Region::open_db_read_only_file -> cut (buffered file-IO scan back-end, ranges > 1 GiB, outside the claim)",
       "rawdb layout lock -> cut (contract mode: sizes bounded so the region never grows)"]
reg(
    H("c08_raw_point_reads", "vecdb", "C08", mem=8, timeout=900, also=("C03",),
      desc="index-addressed reads of the read-write raw vector (collect_one_at, get_any_or_read_at) return the reference element of that index, None if deleted or out of range - deleted slots in the stored part and in the pushed tail, updated slots",
      bounds=CMB, functions=["vecdb::ReadWriteRawVec::{collect_one_at,get_any_or_read_at,unchecked_read_at,has_dirty_stored}", "rawdb::Reader::{new,prefixed}"], stubs=CMS),
    H("c08_raw_range_clean", "vecdb", "C08", mem=10, timeout=1200,
      desc="fold_range_at / try_fold_range_at on a vector without overlay: exactly the reference elements of the clamped range in order (mmap source + pushed tail)",
      bounds=CMB, functions=["vecdb::ReadWriteRawVec::{fold_range_at,try_fold_range_at,fold_source,try_fold_source}", "vecdb::RawMmapSource", "vecdb::ReadWriteBaseVec::{fold_pushed,try_fold_pushed}"], stubs=CMS),
    H("c08_raw_range_dirty", "vecdb", "C08", mem=10, timeout=1200, also=("C03",),
      desc="fold_range_at / try_fold_range_at with deleted and updated slots: exactly the non-deleted reference elements in index order (fold_dirty / try_fold_dirty merging holes, updated, pushed)",
      bounds=CMB + "; at least one deleted slot", functions=["vecdb::ReadWriteRawVec::{fold_dirty,try_fold_dirty}"], stubs=CMS),
    H("c03_raw_edit_step", "vecdb", "C03", mem=12, timeout=1500, also=("C13", "C20"),
      desc="one editing step (truncate_if_needed_at / update_at / delete_at / push) from an arbitrary valid overlay state equals the reference model pointwise; refused update (index beyond the length) has no effect; stamp unchanged; a slot is never both deleted and updated",
      bounds=CMB, functions=["vecdb::ReadWriteRawVec::{truncate_if_needed_at,truncate_dirty_at,update_at,delete_at,push}", "vecdb::ReadWriteBaseVec::truncate_pushed"], stubs=CMS),
    H("c03_raw_write_step", "vecdb", "C03", mem=30, timeout=2400, tier="extended", also=("C09",),
      desc="write() from an arbitrary valid state without deleted slots: afterwards every element is on disk at HEADER_OFFSET + 4*i (file bytes compared), region length = header + 4*len, pushed/updated empty, published stored_len = len, reads unchanged",
      bounds=CMB + "; no deleted slots (holes region needs the allocator)", functions=["vecdb::ReadWriteRawVec::write", "rawdb::Region::{truncate_write,truncate,batch_write_each}", "rawdb::write_to_mmap (bounded real copy)"], stubs=CMS),
    H("c20_raw_rw_reads_expanded", "vecdb", "C20", mem=10, timeout=1200, memsafe=True,
      desc="post-rollback state (logical length above the on-disk length, missing values in the overlay): reads through the read-write vector are served from the overlay for indices beyond the region's length; CBMC pointer checks on (any fetch outside the 48-byte file is a failure)",
      bounds=CMB + "; expanded states", functions=["vecdb::ReadWriteRawVec::collect_one_at"], stubs=CMS),
    H("c20_raw_ro_clone_reads_expanded", "vecdb", "C20", mem=10, timeout=1200, memsafe=True, known="F04",
      desc="same state observed through read_only_clone(): every served index must be backed by region bytes",
      bounds=CMB + "; expanded states", functions=["vecdb::ReadOnlyRawVec::collect_one_at"], stubs=CMS),
)


# Pages (page index of the compressed formats): persisted index == in-memory index after flush
PFB = ("contract mode: Pages over a 48-byte page-index region (3 slots of 16 bytes), synced start state with n pages (n concrete per harness), "
       "truncate point and push concrete per harness; page fields, file bytes and probe slot symbolic")
PFS = [FMT, SBG, "Vec::with_capacity / Vec::reserve -> allocation-bounding stubs (bound 128 bytes)", TOVEC,
       "rawdb layout lock -> cut (contract mode: the region never grows)"]
PFD = ("Pages::{truncate,checked_push,flush} from a synced index: afterwards the page-index region is exactly 16 * pages long and holds exactly the in-memory "
       "pages (bytes compared at a symbolic slot), nothing pending - so a re-import can never see a page beyond what the data region holds")
reg(*[H(n, "vecdb", "C20", mem=10, timeout=900, tier=t, desc=PFD + " [" + sh + "]", bounds=PFB,
        functions=["vecdb::Pages::{truncate,checked_push,flush,set_changed_at}", "rawdb::Region::truncate_write"], stubs=PFS)
      for (n, t, sh) in [
          ("c07_pf_n2_t0", "quick", "2 pages, truncate to 0"),
          ("c07_pf_n1_t0", "quick", "1 page, truncate to 0"),
          ("c07_pf_n2_t1", "quick", "2 pages, truncate to 1"),
          ("c07_pf_n0_t0", "thorough", "empty, truncate to 0"),
          ("c07_pf_n0_push", "thorough", "empty, push"),
          ("c07_pf_n1_push", "thorough", "1 page, push"),
          ("c07_pf_n1_t0_push", "thorough", "1 page, truncate to 0, push"),
          ("c07_pf_n1_t1_push", "thorough", "1 page, no-op truncate, push"),
          ("c07_pf_n2_push", "thorough", "2 pages, push"),
          ("c07_pf_n2_t1_push", "thorough", "2 pages, truncate to 1, push"),
          ("c07_pf_n2_none", "thorough", "2 pages, untouched"),
          ("c07_pages_push_wrong_index", "thorough", "push at an index other than the length is refused with no effect"),
      ]])

# C14: import entry points over one raw Bytes region (stored length concrete per harness)
C14B = ("contract mode: one region 'v/usize' of concrete length (0 / 20 / 32 / 38 / 40 bytes) over a 48-byte symbolic file; stored header version, "
        "stored vector version (< 1000), stored format byte and the requested version (< 1000) symbolic")
C14S = [FMT, SBG, WCAP0, TOVEC, "vecdb::vec_region_name -> \"v/usize\"",
        "rawdb::Database::create_region_if_needed -> the harness's region (name resolution / allocation outside the claim)",
        "rawdb::Database::get_region -> None (no holes region)", "rawdb::Database::remove_region_if_exists -> ghost 'removal' event; the re-creation after a discard is cut (create fails): decided is whether data is discarded, not the re-import"]
C14D = ("ReadWriteRawVec::import_with / forced_import_with: a plain import accepts exactly an empty region or a stored (header version, version + layer constant, format) "
        "that matches with an aligned payload, returns the stored length, never writes to an existing vector's region and never discards; a refused import "
        "wrote nothing; the forced import keeps matching data and never discards on a non-version error")
reg(*[H(n, "vecdb", "C14", mem=m, timeout=to, tier=t, known=k, desc=C14D + " [" + sh + "]", bounds=C14B,
        functions=["vecdb::ReadWriteRawVec::{import_with,forced_import_with}", "vecdb::ReadWriteBaseVec::import", "vecdb::Header::{import_and_verify,create_and_write}", "vecdb::HeaderInner::{import_and_verify,write}"],
        stubs=C14S)
      for (n, t, m, to, k, sh) in [
          ("c14_import_plain_len40", "quick", 10, 900, None, "plain import, header + 2 elements"),
          ("c14_import_plain_len32", "quick", 10, 900, None, "plain import, header only"),
          ("c14_import_plain_len20", "thorough", 10, 900, None, "plain import, region shorter than a header"),
          ("c14_import_plain_len0", "quick", 10, 900, None, "plain import, empty region"),
          ("c14_import_plain_len38", "thorough", 12, 1200, None, "plain import, misaligned payload"),
          ("c14_import_forced_len0", "thorough", 16, 1800, None, "forced import, empty region"),
          ("c14_import_forced_len40", "quick", 16, 900, "F06", "forced import, header + 2 elements"),
          ("c14_import_forced_len32", "thorough", 16, 1800, "F06", "forced import, header only"),
          ("c14_import_forced_len20", "thorough", 30, 2400, None, "forced import, region shorter than a header"),
          ("c14_import_forced_len38", "thorough", 30, 2400, "F06", "forced import, misaligned payload"),
      ]])

reg(
    H("c15_delta_sub_reads", "vecdb", "C15", mem=8, timeout=900,
      desc="LazyDeltaVec<DeltaSub> over a mock source with a symbolic monotone window-start mapping (non-empty windows): range folds and point reads equal src[h] - src[start-1] (saturating; 0 look-back when start = 0), incl. ranges starting in the warm-up zone",
      bounds=C15B + "; mapping as long as the source", functions=["vecdb::LazyDeltaVec::{bulk_try_fold,fold_range_at,collect_one_at}", "vecdb::DeltaSub"], stubs=[WCAP]),
    H("c15_delta_sub_empty_windows", "vecdb", "C15", mem=8, timeout=900,
      desc="same with empty windows allowed (start = h + 1)", bounds=C15B, functions=["vecdb::DeltaSub::count", "vecdb::LazyDeltaVec"], stubs=[WCAP]),
    H("c15_agg_sparse_reads", "vecdb", "C15", mem=40, timeout=2400, tier="extended",
      desc="LazyAggVec<Sparse> over a first-index mapping with 3 groups incl. empty groups: point reads and range folds equal 'last source value of the group, None for an empty group'",
      bounds=C15B + "; 3 groups", functions=["vecdb::LazyAggVec", "vecdb::Sparse::{try_fold,collect_one}"], stubs=[WCAP]),
    H("c17_meta_roundtrip_valid", "rawdb", "C17", mem=10, timeout=900, memsafe=True, also=("C01",),
      desc="RegionMetadata: from_bytes(to_bytes(m)) = m for all valid (start, len, reserved) and a 1-2 byte name (the real 4 KiB encoder)",
      bounds="all page-aligned start/reserved >= 4096, len <= reserved; name 'x' or 'ab'", functions=["rawdb::RegionMetadata::{to_bytes,from_bytes}"], stubs=[FMT, TOVEC]),
    H("c17_meta_name_length_limits", "rawdb", "C17", mem=10, timeout=900,
      desc="a slot whose name is 1023 or 1024 bytes long decodes, 1025 is rejected (encoder accepts names up to 1024 bytes)",
      bounds="ASCII content (UTF-8 validation and the copy are stubbed: length logic only)", functions=["rawdb::RegionMetadata::from_bytes"],
      stubs=[FMT, "<[u8]>::to_vec -> empty vec and String::from_utf8 -> Ok (content irrelevant: ASCII by construction)"]),
)
for (n, l1, l2) in [("c09_cached_race_1_3", 1, 3), ("c09_cached_race_0_2", 0, 2), ("c09_cached_race_2_2", 2, 2)]:
    reg(H(n, "vecdb", "C09", mem=6, timeout=600,
          desc=f"CachedVec over a source whose published length grows from {l1} to {l2} exactly between the reader's length snapshot and its cache store (budget hook plays the writer): the first reader gets a prefix of the writer's sequence; every later reader finds every index below the length it observes readable and equal to the source",
          bounds="source lengths concrete (listed), element values and probe indices symbolic; single reader at a time, sequentially consistent",
          functions=["vecdb::CachedVec::{materialize,try_cached,collect_one_at,len}"], stubs=[WCAP]))
for (n, a, b) in [("c08_cached_agree_3_1", 3, 1), ("c08_cached_agree_2_2", 2, 2), ("c08_cached_agree_0_0", 0, 0)]:
    reg(H(n, "vecdb", "C08", mem=6, timeout=600,
          desc=f"CachedVec (source length {a}, then shrunk to {b}): range folds and point reads equal the source restricted to the range; cached contents never outlive a shrunken source",
          bounds="source lengths concrete (listed), values, ranges (incl. reversed / usize::MAX) and probe indices symbolic",
          functions=["vecdb::CachedVec as ReadableVec"], stubs=[WCAP]))
for (n, shape, q) in [("c03_raw_write_append", "2 stored + 2 pushed", True), ("c03_raw_write_trunc_only", "3 on disk, logical length 1, nothing pushed", False),
                      ("c03_raw_write_truncate_append", "3 on disk, logical length 1, 1 pushed", True), ("c03_raw_write_noop", "2 stored, nothing to do", False)]:
    reg(H(n, "vecdb", "C03", mem=12, timeout=900, tier="quick" if q else "thorough",
          desc="real ReadWriteRawVec::write() (-> Region::truncate_write / truncate -> write_with fits path, real bounded copy into the file) from the concrete shape [" + shape + "] with symbolic file bytes and values: every element is on disk at HEADER_OFFSET + 4*i, region length = header + 4*len, pushed/updated empty, published stored_len = len, reads unchanged",
          bounds="contract mode, 48-byte file, container lengths concrete (symbolic-length Vec operations exhaust memory in symbolic execution), values and file bytes symbolic",
          functions=["vecdb::ReadWriteRawVec::write", "vecdb::ReadWriteBaseVec::write_header_if_needed", "rawdb::Region::{truncate_write,truncate,write_at}", "rawdb::Region::write_with (fits path)", "rawdb::write_to_mmap"], stubs=CMS))


def select(prop, tier, seed=0):
    out = []
    for h in REG:
        if h.prop != prop and prop not in h.also:
            continue
        if tier == "quick":
            if h.quick_for is not None:
                if prop not in h.quick_for:
                    continue
            elif h.tier != "quick":
                continue
        elif tier == "thorough" and h.tier == "extended":
            continue
        out.append(h)
    return out


def props():
    ps = set()
    for h in REG:
        ps.add(h.prop)
        ps.update(h.also)
    return sorted(ps)


LEVEL = {}


def write_evidence(prop, tier, seed, hs, results, wall, violations, digest, known_ids):
    # runs against a scratch copy of the repository (seed evaluation) must not touch /verif/evidence
    evdir = os.environ.get("VERIF_EVIDENCE_DIR") or (
        os.path.join(gentree.WORK, "evidence") if os.environ.get("VERIF_REPO") else os.path.join(gentree.VERIF, "evidence"))
    os.makedirs(evdir, exist_ok=True)
    holds = [r for r in results if r["verdict"] == "HOLDS"]
    nontrivial = [r for r in results
                  if r["verdict"] in ("HOLDS", "COUNTEREXAMPLE") and r.get("covers")
                  and all(c["status"] == "SATISFIED" for c in r["covers"])]
    samples = []
    for h, r in zip(hs, results):
        samples.append({
            "harness": h.name, "package": h.pkg, "decides": h.desc, "bounds": h.bounds,
            "verdict": r["verdict"], "reason": r.get("reason", ""),
            "witnesses": r.get("covers", []),
            "sat_variables": r.get("sat_variables", 0), "clauses": r.get("clauses", 0),
            "symex_s": r.get("symex_s", 0), "solver_s": r.get("solver_s", 0),
            "ssa_steps": r.get("steps", 0), "vccs_after_simplification": r.get("vccs", 0),
            "cbmc_checks": r.get("checks", 0), "wall_s": r.get("wall_s", 0),
            "known_finding": r.get("known_finding"), "replay": r.get("replay"),
        })
    stubs, assumes, funcs = [], [], []
    for h in hs:
        for s in h.stubs:
            if s not in stubs:
                stubs.append(s)
        for s in h.assumes:
            x = f"{h.name}: {s}"
            assumes.append(x)
        for s in h.functions:
            if s not in funcs:
                funcs.append(s)
    ev = {
        "property_id": prop,
        "tier": tier if tier in ("quick", "thorough") else "quick",
        "seed": seed,
        "level": LEVEL.get(prop, "model_checking"),
        "coverage": {
            # model_checking keys: what the bounded model checker explored on this run (measured)
            "states": max(1, sum(r.get("steps", 0) for r in results)),
            "transitions": max(1, sum(r.get("vccs", 0) for r in results)),
            "traces_validated_against_impl": sum(1 for r in results if (r.get("replay") or {}).get("confirmed")),
            "states_rule": "states = SSA steps of the unrolled programs CBMC symbolically executed (sum over harnesses); "
                           "transitions = verification conditions remaining after simplification that went to the SAT solver; "
                           "traces_validated_against_impl = counterexample traces replayed natively by Kani concrete playback "
                           "and confirmed to fail (0 on a clean tree)",
            "evaluations": len(results),
            "distinct_nontrivial": len(nontrivial),
            "rule": "one evaluation = one solver query (Kani harness: CBMC symbolic execution of the "
                    "real code + SAT); a harness counts as non-trivial when it reached a verdict and "
                    "every kani::cover! reachability witness in it was SATISFIED (the paths it is "
                    "meant to exercise are feasible under its assumptions)",
            "samples": samples,
            "obligations": len(results),
            "discharged": len(holds),
            "functions_encoded": funcs,
            "stubs": stubs,
            "engine": "Kani 0.68.0 / CBMC 6.11.0 / CaDiCaL; unwinding assertions on",
            "solver_time_s": round(sum(r.get("solver_s", 0) for r in results), 1),
            "symex_time_s": round(sum(r.get("symex_s", 0) for r in results), 1),
            "repo_source_sha256": digest,
            "known_findings_hit": known_ids,
            "explanation": "bounded model checking of the real code regenerated from /repo on this "
                           "run; bounds per harness in samples[].bounds; nothing is claimed outside them",
        },
        "assumptions": assumes + [
            "platform models (locks, Arc, fs, mmap, ordered maps) in /verif/models stand in for "
            "parking_lot/std/memmap2 in the Kani build (DESIGN.md section 3.3)",
            "sequentially consistent atomics; single-threaded execution of each harness",
        ],
        "wall_s": round(wall, 1),
        "violations": violations,
    }
    with open(os.path.join(evdir, prop + ".json"), "w") as f:
        json.dump(ev, f, indent=1)
