"""Harness registry (which harnesses decide which property, at which tier, with which caps) and
the evidence writer."""
import os, json

from runner import Harness
import gentree

H = Harness
REG = []


def reg(*hs):
    REG.extend(hs)


FMT = "alloc::fmt::format -> String::new() (message text is never part of a property)"
WCAP0 = "Vec::with_capacity / Vec::reserve -> allocation-bounding stubs (panic on capacity overflow like the real ones, assert n <= 8, allocate concrete capacity)"
TOVEC = "<[T]>::to_vec -> bounded copy into a concrete-capacity Vec (asserts len <= 8)"

# ---------------------------------------------------------------------------------------------
# C17 codecs
# ---------------------------------------------------------------------------------------------
reg(
    H("c17_meta_from_bytes_any_slot", "rawdb", "C17", mem=16, timeout=600, memsafe=True,
      desc="RegionMetadata::from_bytes on a fully symbolic 4096-byte slot returns Err or a value "
           "satisfying the validity rules and echoing the encoded fields; no panic/overflow/OOB",
      bounds="slot = 4096 symbolic bytes; id_len <= 4 or > 1024 (ids of 5..1024 bytes outside)",
      functions=["rawdb::RegionMetadata::from_bytes", "String::from_utf8"],
      stubs=[FMT, TOVEC], assumes=["id_len <= 4 || id_len > 1024"]),
)
reg(
    H("c17_num_", "vecdb", "C17", group=True, mem=6, timeout=1500, memsafe=True,
      desc="Bytes for u8..u128, i8..i128, usize, isize, f32, f64: from_bytes(to_bytes(x)) is bit-exact for every bit pattern (floats as bits, all NaN payloads); any slice whose length differs from size_of is rejected without panic",
      bounds="all 2^w values per type (w = 8..128); input slices of 0..17 arbitrary bytes", functions=["vecdb::Bytes for numeric types (bytes/numeric.rs)"], stubs=[FMT]),
    H("c17_arr_", "vecdb", "C17", group=True, mem=6, timeout=900, memsafe=True,
      desc="Bytes for [u8; N], N in {1,3,33,65}: round trip at a symbolic position; wrong length rejected",
      bounds="N in {1,3,33,65}; arbitrary contents", functions=["vecdb::Bytes for [u8; N] (bytes/array.rs)"], stubs=[FMT]),
    H("c17_page_format_stamp_version", "vecdb", "C17", mem=6, timeout=600, memsafe=True,
      desc="Page (raw/compressed constructors, raw flag, 16-byte codec), Format (exactly tags 0,1,64,65,66 decode, each to itself), Stamp, Version: round trips for all field values; truncated or arbitrary bytes give Err or the echoed value, never a panic",
      bounds="all field values (u64/u32/u32 with values < 2^31); inputs of 0..17 arbitrary bytes", functions=["vecdb::Page::{raw,compressed,is_raw,values_count,to_bytes,from_bytes}", "vecdb::Format::{to_bytes,from_bytes}", "Stamp/Version Bytes"], stubs=[FMT]),
    H("c17_header_roundtrip_and_garbage", "vecdb", "C17", mem=6, timeout=600, memsafe=True,
      desc="HeaderInner: from_bytes(to_bytes(h)) = h for all versions/stamps/formats; arbitrary bytes of length 0..HEADER_OFFSET+1 give Err or a header echoing the bytes with a valid format tag",
      bounds="all field values; inputs 0..33 arbitrary bytes", functions=["vecdb::HeaderInner::{to_bytes,from_bytes}"], stubs=[FMT]),
    H("c17_change_cursor_bounds", "vecdb", "C17", mem=6, timeout=600, memsafe=True,
      desc="ChangeCursor::{skip,read_values}: symbolic 64-bit counts and element sizes never overflow or read past the input (checked_mul / checked_add guard every read)",
      bounds="input 0..24 arbitrary bytes; count any usize; element size in {4,8,16,usize::MAX/2}", functions=["vecdb::ChangeCursor::{skip,read_values,check_remaining}"], stubs=[FMT, WCAP0]),
    H("c16_parse_change_data_any_bytes", "vecdb", "C17", mem=8, timeout=900, memsafe=True,
      desc="parse_change_data on an arbitrary byte string: Err(WrongLength|Overflow|Underflow) or a ChangeData whose vectors fit inside the input and echo its fields; no panic, allocation bounded by the input",
      bounds="record = 0..56 arbitrary bytes (truncation at every offset and arbitrary length fields included); element size 4", functions=["vecdb::ReadWriteBaseVec::parse_change_data", "vecdb::ChangeCursor"], stubs=[FMT, WCAP0]),
)


# ---------------------------------------------------------------------------------------------
# C02 Level 1: real Layout operations over the model maps, arbitrary INV layout (tiling)
# ---------------------------------------------------------------------------------------------
L1B = ("arbitrary INV layout of a concrete *shape* (sequence of 2-5 consecutive extents: region / promoted hole / "
       "pending hole / reservation) with symbolic sizes 1..3|4|8 pages and symbolic region lengths; model map "
       "capacity 4; one symbolic byte address w (pointwise oracle, universally quantified); symbolic choice of "
       "the operated region/hole among those of the shape")
for (n, d, f, shapes) in [
    ("c02_l1_last_", "Layout::len() = end of the allocated area whichever kind of extent is last; is_last_anything(r) <=> r's extent is the last extent (no hole, pending hole or reservation behind it)",
     ["rawdb::Layout::len", "rawdb::Layout::is_last_anything"], "RP RS RH HR RR PRS RHP RPR SHR"),
    ("c02_l1_find_", "find_smallest_adequate_hole(min) = start of a smallest promoted hole with size >= min, None iff none (pending holes and reservations are never offered)",
     ["rawdb::Layout::find_smallest_adequate_hole"], "HRHR RHPH HRHRH RPR"),
    ("c02_l1_compress_", "remove_or_compress_hole(start, by): first `by` bytes leave the free index, remainder stays one hole, every other byte keeps its classification; too small => Err",
     ["rawdb::Layout::remove_or_compress_hole", "rawdb::Layout::{insert_hole,remove_hole}"], "RHRH HPHR HRHRH"),
    ("c02_l1_remove_", "remove_region: the region's reserved extent becomes a pending (not yet reusable) hole; nothing else changes; best-fit search never returns it; len() unchanged",
     ["rawdb::Layout::remove_region"], "RHRP HRRH RRS PRH"),
    ("c02_l1_promote_", "promote_pending_holes: pending -> promoted, coalesced with both neighbours into a maximal free extent; no byte changes between free and used; no promoted hole overlaps a live region; no two promoted holes adjacent; hole index stays the exact inverse",
     ["rawdb::Layout::promote_pending_holes"], "HPRH HPHR RPHR RPRP PPRH HPPH RHPR HRPH HPRHR RR"),
    ("c02_l1_move_", "reserve(end) + move_region + take_reserved: old extent becomes pending, region keyed at the reserved target, reservation consumed, len() accounts for the reservation",
     ["rawdb::Layout::{reserve,take_reserved,move_region,insert_region}"], "RHR RRPH HR"),
]:
    reg(H(n, "rawdb", "C02", mem=8, timeout=600, group=True, desc=d + " [shapes: " + shapes + "]",
          bounds=L1B, functions=f, stubs=[FMT]))


# ---------------------------------------------------------------------------------------------
# C15 lazy vectors
# ---------------------------------------------------------------------------------------------
WCAP = "Vec::with_capacity / Vec::reserve -> allocation-bounding stubs (assert n <= 8, allocate concrete capacity)"
C15B = "sources = in-memory mock ReadableVecs with symbolic contents and symbolic (unequal) lengths <= 3; symbolic (from,to) incl. reversed, out of bounds, usize::MAX; symbolic probe index"
reg(
    H("c15_from2_range_reads", "vecdb", "C15", mem=8, timeout=900,
      desc="LazyVecFrom2: len = min of governing sources; collect_range/fold/try_fold/for_each_range_dyn/collect_one return exactly compute(i, s1[i], s2[i]) for the clamped range",
      bounds=C15B, functions=["vecdb::LazyVecFrom2 as ReadableVec (read_into_at, for_each_range_dyn_at, fold_range_at, try_fold_range_at, collect_one_at)", "vecdb::ReadableVec default methods"], stubs=[WCAP]),
    H("c15_from1_from3_reads", "vecdb", "C15", mem=8, timeout=900,
      desc="LazyVecFrom1 and LazyVecFrom3 (middle source indexed by a foreign index type, not governing): range and point reads equal the formula",
      bounds=C15B + "; the non-governing source is at least as long as the governing length", functions=["vecdb::LazyVecFrom1", "vecdb::LazyVecFrom3"], stubs=[WCAP],
      assumes=["non-governing (foreign index) source length >= governing length"]),
    H("c15_from2_sorted_reads", "vecdb", "C15", mem=8, timeout=900,
      desc="LazyVecFrom2::read_sorted_at for sorted index pairs incl. duplicates equals the formula per index",
      bounds=C15B + "; 2 sorted indices", functions=["vecdb::LazyVecFrom2::read_sorted_into_at", "vecdb::Cursor (default read_sorted_into_at of the sources)"], stubs=[WCAP]),
)


# ---------------------------------------------------------------------------------------------
# Level 2: real rawdb operations on a Database built directly (real Layout, real metadata)
# ---------------------------------------------------------------------------------------------
SBG = "Database::sync_bg_tasks -> Ok(()) (background tasks outside every claim)"
L2B = ("database world of a concrete shape with concrete extent sizes in pages (listed in the harness name: r/x = region, "
       "h = promoted hole, p = pending hole; x = the region written to); symbolic: region content lengths, metadata "
       "dirty states, dirty bounds, file length (end..end+2 pages), entry point (write / write_at / truncate_write), "
       "offset `at` (0..reserved+1), data length 0..5 pages, file-growth failure; ghost-mode data file (bytes not "
       "modelled: writes/copies are events); one symbolic byte address for the pointwise layout oracle")
L2F = ["rawdb::Region::write_with (write, write_at, truncate_write)", "rawdb::Database::{write,copy,set_min_len}",
       "rawdb::Layout::{is_last_anything,get_hole,remove_or_compress_hole,find_smallest_adequate_hole,reserve,take_reserved,move_region,len}",
       "rawdb::RegionMetadata::{set_len,set_start,set_reserved,write_if_dirty,to_bytes}", "rawdb::Regions::write_at",
       "rawdb::write_to_mmap (ghost hook)"]
WD = ("one real write step from an arbitrary INV state: placement algebra (new start/len/reserved, exactly one data write at "
      "new_start+offset, old bytes copied iff relocated, copy before write before slot), frame (no other region's extent or "
      "metadata touched), INV re-established pointwise, best-fit reuse, slot written with final values; refused write "
      "(offset beyond end / growth failure) has no effect")
for (n, tier) in [("c01_write_x1h4r1", "quick"), ("c01_write_x1p1", "quick"), ("c01_write_r1x1", "thorough"),
                  ("c01_write_x1h1r1", "thorough"), ("c01_write_x1r1h2r1h4", "thorough"), ("c01_write_x1r1h2", "thorough"),
                  ("c01_write_x2r1", "thorough"), ("c01_write_h1x1r1", "thorough"), ("c01_write_x1h2p1", "thorough")]:
    for prop in ("C01",):
        reg(H(n, "rawdb", prop, tier=tier, mem=24, timeout=2400, desc=WD, bounds=L2B, functions=L2F, stubs=[FMT, SBG]))


def select(prop, tier, seed=0):
    out = []
    for h in REG:
        if h.prop != prop:
            continue
        if tier == "quick" and h.tier != "quick":
            continue
        out.append(h)
    return out


def props():
    return sorted({h.prop for h in REG})


LEVEL = {"C18": "other"}


def write_evidence(prop, tier, seed, hs, results, wall, violations, digest, known_ids):
    os.makedirs(os.path.join(gentree.VERIF, "evidence"), exist_ok=True)
    holds = [r for r in results if r["verdict"] == "HOLDS"]
    nontrivial = [r for r in results
                  if r["verdict"] in ("HOLDS", "COUNTEREXAMPLE") and r.get("covers")
                  and all(c["status"] == "SATISFIED" for c in r["covers"])]
    samples = []
    for h, r in zip(hs, results):
        samples.append({
            "harness": h.name, "package": h.pkg, "decides": h.desc, "bounds": h.bounds,
            "verdict": r["verdict"], "reason": r.get("reason", ""),
            "witnesses": r.get("covers", []),
            "sat_variables": r.get("sat_variables", 0), "clauses": r.get("clauses", 0),
            "symex_s": r.get("symex_s", 0), "solver_s": r.get("solver_s", 0),
            "ssa_steps": r.get("steps", 0), "vccs_after_simplification": r.get("vccs", 0),
            "cbmc_checks": r.get("checks", 0), "wall_s": r.get("wall_s", 0),
            "known_finding": r.get("known_finding"), "replay": r.get("replay"),
        })
    stubs, assumes, funcs = [], [], []
    for h in hs:
        for s in h.stubs:
            if s not in stubs:
                stubs.append(s)
        for s in h.assumes:
            x = f"{h.name}: {s}"
            assumes.append(x)
        for s in h.functions:
            if s not in funcs:
                funcs.append(s)
    ev = {
        "property_id": prop,
        "tier": tier if tier in ("quick", "thorough") else "quick",
        "seed": seed,
        "level": LEVEL.get(prop, "model_checking"),
        "coverage": {
            "evaluations": len(results),
            "distinct_nontrivial": len(nontrivial),
            "rule": "one evaluation = one solver query (Kani harness: CBMC symbolic execution of the "
                    "real code + SAT); a harness counts as non-trivial when it reached a verdict and "
                    "every kani::cover! reachability witness in it was SATISFIED (the paths it is "
                    "meant to exercise are feasible under its assumptions)",
            "samples": samples,
            "obligations": len(results),
            "discharged": len(holds),
            "functions_encoded": funcs,
            "stubs": stubs,
            "engine": "Kani 0.68.0 / CBMC 6.11.0 / CaDiCaL; unwinding assertions on",
            "solver_time_s": round(sum(r.get("solver_s", 0) for r in results), 1),
            "symex_time_s": round(sum(r.get("symex_s", 0) for r in results), 1),
            "repo_source_sha256": digest,
            "known_findings_hit": known_ids,
            "explanation": "bounded model checking of the real code regenerated from /repo on this "
                           "run; bounds per harness in samples[].bounds; nothing is claimed outside them",
        },
        "assumptions": assumes + [
            "platform models (locks, Arc, fs, mmap, ordered maps) in /verif/models stand in for "
            "parking_lot/std/memmap2 in the Kani build (DESIGN.md section 3.3)",
            "sequentially consistent atomics; single-threaded execution of each harness",
        ],
        "wall_s": round(wall, 1),
        "violations": violations,
    }
    with open(os.path.join(gentree.VERIF, "evidence", prop + ".json"), "w") as f:
        json.dump(ev, f, indent=1)
