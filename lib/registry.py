"""Harness registry (which harnesses decide which property, at which tier, with which caps) and
the evidence writer."""
import os, json

from runner import Harness
import gentree

H = Harness
REG = []


def reg(*hs):
    REG.extend(hs)


FMT = "alloc::fmt::format -> String::new() (message text is never part of a property)"
TOVEC = "<[T]>::to_vec -> bounded copy into a concrete-capacity Vec (asserts len <= 8)"

# ---------------------------------------------------------------------------------------------
# C17 codecs
# ---------------------------------------------------------------------------------------------
reg(
    H("c17_meta_from_bytes_any_slot", "rawdb", "C17", mem=16, timeout=600, memsafe=True,
      desc="RegionMetadata::from_bytes on a fully symbolic 4096-byte slot returns Err or a value "
           "satisfying the validity rules and echoing the encoded fields; no panic/overflow/OOB",
      bounds="slot = 4096 symbolic bytes; id_len <= 4 or > 1024 (ids of 5..1024 bytes outside)",
      functions=["rawdb::RegionMetadata::from_bytes", "String::from_utf8"],
      stubs=[FMT, TOVEC], assumes=["id_len <= 4 || id_len > 1024"]),
)


def select(prop, tier, seed=0):
    out = []
    for h in REG:
        if h.prop != prop:
            continue
        if tier == "quick" and h.tier != "quick":
            continue
        out.append(h)
    return out


def props():
    return sorted({h.prop for h in REG})


LEVEL = {"C18": "other"}


def write_evidence(prop, tier, seed, hs, results, wall, violations, digest, known_ids):
    os.makedirs(os.path.join(gentree.VERIF, "evidence"), exist_ok=True)
    holds = [r for r in results if r["verdict"] == "HOLDS"]
    nontrivial = [r for r in results
                  if r["verdict"] in ("HOLDS", "COUNTEREXAMPLE") and r.get("covers")
                  and all(c["status"] == "SATISFIED" for c in r["covers"])]
    samples = []
    for h, r in zip(hs, results):
        samples.append({
            "harness": h.name, "package": h.pkg, "decides": h.desc, "bounds": h.bounds,
            "verdict": r["verdict"], "reason": r.get("reason", ""),
            "witnesses": r.get("covers", []),
            "sat_variables": r.get("sat_variables", 0), "clauses": r.get("clauses", 0),
            "symex_s": r.get("symex_s", 0), "solver_s": r.get("solver_s", 0),
            "ssa_steps": r.get("steps", 0), "vccs_after_simplification": r.get("vccs", 0),
            "cbmc_checks": r.get("checks", 0), "wall_s": r.get("wall_s", 0),
            "known_finding": r.get("known_finding"), "replay": r.get("replay"),
        })
    stubs, assumes, funcs = [], [], []
    for h in hs:
        for s in h.stubs:
            if s not in stubs:
                stubs.append(s)
        for s in h.assumes:
            x = f"{h.name}: {s}"
            assumes.append(x)
        for s in h.functions:
            if s not in funcs:
                funcs.append(s)
    ev = {
        "property_id": prop,
        "tier": tier if tier in ("quick", "thorough") else "quick",
        "seed": seed,
        "level": LEVEL.get(prop, "model_checking"),
        "coverage": {
            "evaluations": len(results),
            "distinct_nontrivial": len(nontrivial),
            "rule": "one evaluation = one solver query (Kani harness: CBMC symbolic execution of the "
                    "real code + SAT); a harness counts as non-trivial when it reached a verdict and "
                    "every kani::cover! reachability witness in it was SATISFIED (the paths it is "
                    "meant to exercise are feasible under its assumptions)",
            "samples": samples,
            "obligations": len(results),
            "discharged": len(holds),
            "functions_encoded": funcs,
            "stubs": stubs,
            "engine": "Kani 0.68.0 / CBMC 6.11.0 / CaDiCaL; unwinding assertions on",
            "solver_time_s": round(sum(r.get("solver_s", 0) for r in results), 1),
            "symex_time_s": round(sum(r.get("symex_s", 0) for r in results), 1),
            "repo_source_sha256": digest,
            "known_findings_hit": known_ids,
            "explanation": "bounded model checking of the real code regenerated from /repo on this "
                           "run; bounds per harness in samples[].bounds; nothing is claimed outside them",
        },
        "assumptions": assumes + [
            "platform models (locks, Arc, fs, mmap, ordered maps) in /verif/models stand in for "
            "parking_lot/std/memmap2 in the Kani build (DESIGN.md section 3.3)",
            "sequentially consistent atomics; single-threaded execution of each harness",
        ],
        "wall_s": round(wall, 1),
        "violations": violations,
    }
    with open(os.path.join(gentree.VERIF, "evidence", prop + ".json"), "w") as f:
        json.dump(ev, f, indent=1)
