"""Run Kani harnesses on the generated tree, parse CBMC's verdicts, write evidence.

Verdict classes per harness
  HOLDS           VERIFICATION SUCCESSFUL, unwinding assertions passed, every cover! witness SATISFIED
  VACUOUS         successful but a reachability witness was not satisfied  -> machinery error (exit 2)
  COUNTEREXAMPLE  a property check (assertion / panic / overflow / memory safety) FAILED
  INCONCLUSIVE    timeout, out of memory, unwinding assertion failed, compiler error, ICE
"""
import os, re, sys, json, time, subprocess, shlex, threading, queue, resource, signal

from gentree import VERIF, WORK, TREE

LOGS = os.path.join(WORK, "logs")
TOTAL_MEM_GB = int(os.environ.get("VERIF_MEM_GB", "52"))
MAX_WORKERS = int(os.environ.get("VERIF_WORKERS", "7"))
WORKER_BASE = int(os.environ.get("VERIF_WORKER_BASE", "0"))


class Harness:
    def __init__(self, name, pkg, prop, tier="quick", mem=6, timeout=600, memsafe=False,
                 desc="", bounds="", functions=(), stubs=(), assumes=(), covers=(),
                 known=None, extra=(), features=None, unwindset=None, group=False, also=(), quick_for=None):
        self.name = name
        self.pkg = pkg
        self.prop = prop
        self.tier = tier          # "quick" => runs in both tiers, "thorough" => thorough only
        self.mem = mem            # GB cap (ulimit -v)
        self.timeout = timeout    # s
        self.memsafe = memsafe    # keep CBMC pointer checks on
        self.desc = desc
        self.bounds = bounds
        self.functions = list(functions)
        self.stubs = list(stubs)
        self.assumes = list(assumes)
        self.covers = list(covers)
        self.known = known        # id of a known finding this harness is expected to hit
        self.extra = list(extra)
        self.features = features
        self.unwindset = unwindset
        self.also = tuple(also)   # further properties this harness also decides
        self.quick_for = quick_for  # None: tier applies to all props; else set of props for which it is in the quick tier
        self.group = group        # name is a prefix: one cargo-kani invocation runs every harness matching it


def _cmd(h, target_dir):
    cmd = ["cargo", "kani", "-p", h.pkg, "--harness", h.name,
           "-Z", "stubbing", "-Z", "unstable-options", "--target-dir", target_dir]
    if not h.memsafe:
        cmd.append("--no-memory-safety-checks")
    if h.features:
        cmd += ["--features", h.features]
    elif h.pkg == "vecdb":
        cmd += ["--features", "derive,zerocopy"]
    cmd += h.extra
    return cmd


def _limit(mem_gb):
    def f():
        b = mem_gb * 1024 ** 3
        resource.setrlimit(resource.RLIMIT_AS, (b, b))
        os.setsid()
    return f


RE_FAILED = re.compile(r"^Failed Checks: (.*)$", re.M)
RE_COVER = re.compile(r"\*\* (\d+) of (\d+) cover properties satisfied(?: \((\d+) (unreachable|undetermined)\))?")
RE_SUMMARY = re.compile(r"\*\* (\d+) of (\d+) failed")
RE_VARS = re.compile(r"(\d+) variables, (\d+) clauses")
RE_SYMEX = re.compile(r"Runtime Symex: ([\d.]+)s")
RE_SOLVER = re.compile(r"Runtime Solver: ([\d.]+)s")
RE_DEC = re.compile(r"Runtime decision procedure: ([\d.]+)s")
RE_STEPS = re.compile(r"size of program expression: (\d+) steps")
RE_VCC = re.compile(r"Generated (\d+) VCC\(s\), (\d+) remaining")
RE_STUB = re.compile(r"^\s+- Stub: (.*)$", re.M)
RE_COVERLINE = re.compile(r'Check \d+: (\S+)\.cover\.\d+\n\s+- Status: (\w+)\n\s+- Description: "([^"]*)"')


RE_SECTION = re.compile(r"^Checking harness (\S+?)\.\.\.$", re.M)
ORDER = {"HOLDS": 0, "VACUOUS": 1, "INCONCLUSIVE": 2, "COUNTEREXAMPLE": 3}


def parse_group(text):
    """Split a multi-harness log into per-harness sections and combine."""
    marks = list(RE_SECTION.finditer(text))
    if not marks:
        return parse_log(text)
    subs = []
    for i, m in enumerate(marks):
        end = marks[i + 1].start() if i + 1 < len(marks) else len(text)
        sec = text[m.start():end]
        r = parse_log(sec)
        r["harness"] = m.group(1).split("::")[-1]
        subs.append(r)
    worst = max(subs, key=lambda r: ORDER[r["verdict"]])
    agg = {"verdict": worst["verdict"],
           "reason": "; ".join(f"{r['harness']}: {r['reason']}" for r in subs if r["verdict"] != "HOLDS"),
           "failed": [f for r in subs for f in r["failed"]],
           "covers": [c for r in subs for c in r["covers"]],
           "sat_variables": sum(r["sat_variables"] for r in subs),
           "clauses": sum(r["clauses"] for r in subs),
           "symex_s": round(sum(r["symex_s"] for r in subs), 2),
           "solver_s": round(sum(r["solver_s"] for r in subs), 2),
           "steps": sum(r["steps"] for r in subs), "vccs": sum(r["vccs"] for r in subs),
           "checks": sum(r["checks"] for r in subs), "stubs": subs[0]["stubs"],
           "subs": [{"harness": r["harness"], "verdict": r["verdict"], "reason": r["reason"],
                     "failed": r["failed"], "sat_variables": r["sat_variables"],
                     "solver_s": r["solver_s"], "symex_s": r["symex_s"],
                     "covers": r["covers"]} for r in subs]}
    # a compile error / missing summary after the sections
    if not re.search(r"Complete - \d+ successfully verified harnesses", text):
        # the last section may be cut off mid-way: drop an incomplete trailing INCONCLUSIVE
        if agg["verdict"] == "INCONCLUSIVE" and any(x["verdict"] == "COUNTEREXAMPLE" for x in agg["subs"]):
            agg["verdict"] = "COUNTEREXAMPLE"
        if agg["verdict"] == "HOLDS":
            agg["verdict"], agg["reason"] = "INCONCLUSIVE", "group run did not complete"
    return agg


def parse_log(text):
    r = {"verdict": "INCONCLUSIVE", "reason": "", "failed": [], "covers": [], "sat_variables": 0,
         "clauses": 0, "symex_s": 0.0, "solver_s": 0.0, "steps": 0, "vccs": 0, "checks": 0,
         "stubs": RE_STUB.findall(text)}
    m = RE_VARS.findall(text)
    if m:
        r["sat_variables"], r["clauses"] = int(m[-1][0]), int(m[-1][1])
    m = RE_SYMEX.search(text)
    if m:
        r["symex_s"] = float(m.group(1))
    m = RE_DEC.findall(text) or RE_SOLVER.findall(text)
    if m:
        r["solver_s"] = sum(float(x) for x in m)
    m = RE_STEPS.search(text)
    if m:
        r["steps"] = int(m.group(1))
    m = RE_VCC.search(text)
    if m:
        r["vccs"] = int(m.group(2))
    m = RE_SUMMARY.search(text)
    if m:
        r["checks"] = int(m.group(2))
    r["covers"] = [{"desc": d, "status": s} for (_, s, d) in RE_COVERLINE.findall(text)]
    failed = RE_FAILED.findall(text)
    r["failed"] = failed
    if "VERIFICATION:- SUCCESSFUL" in text:
        bad = [c for c in r["covers"] if c["status"] != "SATISFIED"]
        if bad:
            r["verdict"] = "VACUOUS"
            r["reason"] = "witness not satisfied: " + "; ".join(c["desc"] for c in bad)
        else:
            r["verdict"] = "HOLDS"
    elif "VERIFICATION:- FAILED" in text:
        lower = text.lower()
        if "out of memory" in lower or "ran out of memory" in lower or "std::bad_alloc" in lower:
            r["reason"] = "out of memory"
        elif "cbmc failed" in lower or "cbmc timed out" in lower:
            r["reason"] = "cbmc failed"
        else:
            real = [f for f in failed if "unwinding assertion" not in f
                    and "is not currently supported by Kani" not in f
                    and "VERIF: bound exceeded" not in f]
            if real:
                r["verdict"] = "COUNTEREXAMPLE"
                r["reason"] = "; ".join(real)
            elif failed:
                r["reason"] = "bound/unsupported: " + "; ".join(failed)
            else:
                r["reason"] = "failed without failed-check list"
    elif "error: internal compiler error" in text or "Kani unexpectedly panicked" in text:
        r["reason"] = "kani internal compiler error"
    elif re.search(r"^error(\[E\d+\])?:", text, re.M):
        r["reason"] = "compile error"
    else:
        r["reason"] = "no verdict in log"
    return r


def run_one(h, worker):
    os.makedirs(LOGS, exist_ok=True)
    target = os.path.join(WORK, "target", f"w{worker + WORKER_BASE}")
    log = os.path.join(LOGS, h.name + ".log")
    cmd = _cmd(h, target)
    env = dict(os.environ, CARGO_NET_OFFLINE="true", CARGO_TERM_COLOR="never")
    t0 = time.time()
    with open(log, "w") as lf:
        lf.write("$ " + " ".join(shlex.quote(c) for c in cmd) + "\n")
        lf.flush()
        p = subprocess.Popen(cmd, cwd=TREE, stdout=lf, stderr=subprocess.STDOUT, env=env,
                             preexec_fn=_limit(h.mem))
        try:
            p.wait(timeout=h.timeout)
            timed_out = False
        except subprocess.TimeoutExpired:
            timed_out = True
            try:
                os.killpg(p.pid, signal.SIGKILL)
            except ProcessLookupError:
                pass
            p.wait()
    wall = time.time() - t0
    text = open(log, errors="replace").read()
    r = parse_group(text) if h.group else parse_log(text)
    if timed_out:
        # a group that ran out of time still reports the counterexamples it found before
        if not (h.group and r.get("verdict") == "COUNTEREXAMPLE"):
            r["verdict"], r["reason"] = "INCONCLUSIVE", f"timeout after {h.timeout}s"
        else:
            r["reason"] += f" (group timed out after {h.timeout}s before all members ran)"
    r.update(harness=h.name, wall_s=round(wall, 1), log=log, mem_cap_gb=h.mem)
    return r


def run_many(harnesses, progress=True):
    """Run harnesses in parallel under the memory budget. Returns list of results (same order)."""
    results = {}
    pending = sorted(harnesses, key=lambda h: -h.mem)
    lock = threading.Lock()
    cond = threading.Condition(lock)
    state = {"mem": 0, "workers": set(range(MAX_WORKERS))}

    def worker_fn(h, w):
        try:
            r = run_one(h, w)
        except Exception as e:  # machinery problem
            r = {"harness": h.name, "verdict": "INCONCLUSIVE", "reason": f"runner exception {e!r}",
                 "failed": [], "covers": [], "wall_s": 0, "log": ""}
        with cond:
            results[h.name] = r
            state["mem"] -= h.mem
            state["workers"].add(w)
            if progress:
                print(f"  [{r['verdict']:<14}] {h.name}  {r['wall_s']}s  {r.get('reason','')[:150]}",
                      flush=True)
            cond.notify_all()

    threads = []
    with cond:
        while pending:
            started = False
            for h in list(pending):
                if state["workers"] and (state["mem"] + h.mem <= TOTAL_MEM_GB or state["mem"] == 0):
                    w = min(state["workers"])
                    state["workers"].discard(w)
                    state["mem"] += h.mem
                    pending.remove(h)
                    t = threading.Thread(target=worker_fn, args=(h, w))
                    t.start()
                    threads.append(t)
                    started = True
                    break
            if not started:
                cond.wait()
    for t in threads:
        t.join()
    return [results[h.name] for h in harnesses]
