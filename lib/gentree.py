"""Generate the verification tree from /repo's *current working tree*.

The tree is /verif/.work/tree:
  crates/{rawdb,vecdb,vecdb_derive}/  <- byte-for-byte copies of /repo/crates/*/{src,Cargo.toml}
                                         except (a) the import redirects below (only `use` text),
                                         (b) one appended `#[cfg(kani)] #[path=...] mod verif_*;`
                                         line per mounted harness module
  Cargo.toml                          <- workspace + [patch.crates-io] selecting the model crates
  Cargo.lock                          <- copy of /repo/Cargo.lock (cargo completes it offline)

Files are only rewritten when their content changed, so cargo's fingerprints stay valid between
runs on an unchanged /repo; any edit under /repo/crates changes the generated file and forces the
rebuild of that crate.  A redirect whose anchor text is missing is a machinery error (exit 2).
"""
import os, sys, shutil, hashlib, json, re

REPO = os.environ.get("VERIF_REPO", "/repo")
VERIF = os.path.dirname(os.path.dirname(os.path.abspath(__file__)))
WORK = os.environ.get("VERIF_WORK", os.path.join(VERIF, ".work"))
TREE = os.path.join(WORK, "tree")
PLAT = "anydb_verif_platform"


class MachineryError(Exception):
    pass


# ---------------------------------------------------------------------------------------------
# Import redirects: (crate, file relative to src, old text, new text).  Only `use` statements.
# Every entry must match exactly once.
# ---------------------------------------------------------------------------------------------
REDIRECTS = [
    # ---- rawdb ----
    ("rawdb", "lib.rs",
     "use std::{\n    collections::HashSet,\n    fmt,\n    fs::{self, File, OpenOptions},\n    path::{Path, PathBuf},\n    sync::{\n        Arc, Weak,\n        atomic::{AtomicUsize, Ordering},\n    },\n    thread::{self, JoinHandle},\n    time::{Duration, Instant},\n};",
     "use std::{\n    fmt,\n    path::{Path, PathBuf},\n    sync::{\n        atomic::{AtomicUsize, Ordering},\n    },\n    time::Duration,\n};\nuse PLAT::{collections::HashSet, fs::{self, File, OpenOptions}, sync::{Arc, Weak}, thread::{self, JoinHandle}, libc, time::Instant};"),
    ("rawdb", "regions.rs",
     "use std::{\n    collections::HashMap,\n    fs::{self, File, OpenOptions},\n    path::Path,\n    sync::Arc,\n};",
     "use std::{\n    path::Path,\n};\nuse PLAT::{collections::HashMap, fs::{self, File, OpenOptions}, sync::Arc};"),
    ("rawdb", "region.rs",
     "use std::{fs::File, mem, sync::Arc};",
     "use std::mem;\nuse PLAT::{fs::File, sync::Arc};"),
    ("rawdb", "layout.rs",
     "use std::{collections::BTreeMap, mem};",
     "use std::mem;\nuse PLAT::collections::BTreeMap;"),
    ("rawdb", "mmap.rs",
     "use std::fs::File;",
     "use PLAT::fs::File;"),
    ("rawdb", "hole_punch.rs",
     "use std::fs::File;",
     "use PLAT::fs::File;\nuse PLAT::libc;"),
    ("rawdb", "disk_usage.rs",
     "use std::fs::File;",
     "use PLAT::fs::File;\n#[allow(unused_imports)]\nuse PLAT::libc;"),
    # ---- vecdb ---- (File handles cross the crate boundary: Region::open_db_read_only_file)
    ("vecdb", "variants/raw/sources/io.rs",
     "use std::{\n    fs::File,\n    io::{Read, Seek, SeekFrom},\n    marker::PhantomData,\n};",
     "use std::{\n    io::{Read, Seek, SeekFrom},\n    marker::PhantomData,\n};\nuse PLAT::fs::File;"),
    ("vecdb", "variants/compressed/sources/io.rs",
     "use std::{\n    fs::File,\n    io::{Read, Seek, SeekFrom},\n    sync::Arc,\n};",
     "use std::{\n    io::{Read, Seek, SeekFrom},\n    sync::Arc,\n};\nuse PLAT::fs::File;"),
    ("vecdb", "variants/raw/inner/read_write/mod.rs",
     "use std::{\n    collections::{BTreeMap, BTreeSet},\n    marker::PhantomData,\n};",
     "use std::marker::PhantomData;\nuse PLAT::collections::{BTreeMap, BTreeSet};"),
    ("vecdb", "variants/raw/inner/read_write/rollback.rs",
     "use std::collections::BTreeSet;",
     "use PLAT::collections::BTreeSet;"),
    ("vecdb", "variants/raw/inner/read_write/change.rs",
     "use std::collections::BTreeSet;",
     "use PLAT::collections::BTreeSet;"),
    ("rawdb", "lib.rs",
     "            let ref_count = std::sync::Arc::strong_count(region.arc());",
     "            let ref_count = Arc::strong_count(region.arc());"),
]

# Harness modules mounted into the generated tree: (crate, file, module name, harness file)
MOUNTS = [
    ("rawdb", "lib.rs", "verif_root", "kani/rawdb/root.rs"),
    ("rawdb", "layout.rs", "verif_layout", "kani/rawdb/layout.rs"),
    ("rawdb", "regions.rs", "verif_regions", "kani/rawdb/regions.rs"),
    ("rawdb", "region.rs", "verif_region", "kani/rawdb/region.rs"),
    ("rawdb", "region_metadata.rs", "verif_meta", "kani/rawdb/meta.rs"),
    ("vecdb", "lib.rs", "verif_root", "kani/vecdb/root.rs"),
    ("vecdb", "base/mod.rs", "verif_base", "kani/vecdb/base.rs"),
    ("vecdb", "base/header/inner.rs", "verif_hinner", "kani/vecdb/header_inner.rs"),
    ("vecdb", "base/header/mod.rs", "verif_header", "kani/vecdb/header.rs"),
    ("vecdb", "variants/eager/mod.rs", "verif_eager", "kani/vecdb/eager.rs"),
    ("vecdb", "variants/raw/inner/read_write/mod.rs", "verif_raw", "kani/vecdb/raw_rw.rs"),
    ("vecdb", "variants/compressed/inner/pages.rs", "verif_pages", "kani/vecdb/pages.rs"),
    ("vecdb", "variants/compressed/inner/read_write/mod.rs", "verif_comp", "kani/vecdb/comp_rw.rs"),
]

FEATURES_VECDB = ["derive", "zerocopy"]

ROOT_TOML = """# GENERATED by /verif/lib/gentree.py - do not edit
[workspace]
resolver = "3"
members = ["crates/rawdb", "crates/vecdb", "crates/vecdb_derive"]
package.license = "MIT"
package.edition = "2024"
package.version = "{version}"
package.homepage = "x"
package.repository = "x"
package.readme = "x"
package.keywords = []
package.categories = []

[workspace.dependencies]
{wsdeps}

[patch.crates-io]
parking_lot = {{ path = "{verif}/models/parking_lot" }}
memmap2 = {{ path = "{verif}/models/memmap2" }}
rayon = {{ path = "{verif}/models/rayon" }}
smallvec = {{ path = "{verif}/models/smallvec" }}

[workspace.lints.rust]
unexpected_cfgs = {{ level = "allow" }}
"""


def _write_if_changed(path, data: bytes):
    try:
        with open(path, "rb") as f:
            if f.read() == data:
                return False
    except FileNotFoundError:
        pass
    os.makedirs(os.path.dirname(path), exist_ok=True)
    with open(path, "wb") as f:
        f.write(data)
    return True


def _copy_crate(name, digest, mounts_enabled, tree=None, kani_override=None):
    tree = tree or TREE
    src_root = os.path.join(REPO, "crates", name)
    dst_root = os.path.join(tree, "crates", name)
    wanted = set()
    red = [(f, a, b) for (c, f, a, b) in REDIRECTS if c == name]
    hit = {i: 0 for i in range(len(red))}
    for dirpath, dirs, files in os.walk(os.path.join(src_root, "src")):
        for fn in files:
            sp = os.path.join(dirpath, fn)
            rel = os.path.relpath(sp, src_root)
            relsrc = os.path.relpath(sp, os.path.join(src_root, "src"))
            data = open(sp, "rb").read()
            digest.update(rel.encode())
            digest.update(data)
            if fn.endswith(".rs"):
                text = data.decode()
                for i, (f, a, b) in enumerate(red):
                    if f == relsrc:
                        n = text.count(a)
                        if n != 1:
                            raise MachineryError(
                                f"gentree anchor missing: {name}/src/{f}: expected exactly one "
                                f"occurrence of {a[:60]!r}..., found {n}")
                        text = text.replace(a, b.replace("PLAT", PLAT))
                        hit[i] += 1
                for (c, f, mod, hf) in MOUNTS:
                    if c == name and f == relsrc and mounts_enabled:
                        hpath = os.path.join(VERIF, hf)
                        if kani_override and hf in kani_override:
                            hpath = kani_override[hf]
                        if os.path.exists(hpath):
                            text += f'\n#[cfg(kani)]\n#[path = "{hpath}"]\n{"pub" if (c == "rawdb" and mod == "verif_root") else "pub(crate)"} mod {mod};\n'
                if relsrc == "lib.rs" and name in ("rawdb", "vecdb"):
                    text = "#![cfg_attr(kani, feature(allocator_api))]\n" + text
                data = text.encode()
            dp = os.path.join(dst_root, rel)
            wanted.add(dp)
            _write_if_changed(dp, data)
    for i, n in hit.items():
        if n != 1:
            raise MachineryError(f"gentree anchor missing: {name}/src/{red[i][0]} (file not found)")
    # README referenced by include_str!
    for extra in ("README.md",):
        sp = os.path.join(src_root, extra)
        if os.path.exists(sp):
            dp = os.path.join(dst_root, extra)
            wanted.add(dp)
            _write_if_changed(dp, open(sp, "rb").read())
    # Cargo.toml: add platform dependency + lints
    toml = open(os.path.join(src_root, "Cargo.toml")).read()
    digest.update(toml.encode())
    # drop [[example]] tables and dev-dependencies (not part of the library under verification)
    toml = re.sub(r"\[\[example\]\]\n(?:[^\[\n][^\n]*\n|\n)*", "", toml)
    toml = re.sub(r"\[dev-dependencies\]\n(?:[^\[\n][^\n]*\n|\n)*", "", toml)
    if name in ("rawdb", "vecdb"):
        toml = toml.replace("[package]\n", "[package]\nautoexamples = false\nautotests = false\nautobenches = false\n", 1)
        if "[dependencies]\n" not in toml:
            raise MachineryError(f"gentree anchor missing: {name}/Cargo.toml [dependencies]")
        toml = toml.replace(
            "[dependencies]\n",
            f'[dependencies]\n{PLAT} = {{ path = "{VERIF}/models/platform" }}\n', 1)
        if '[lints' not in toml:
            toml += '\n[lints]\nworkspace = true\n'
    dp = os.path.join(dst_root, "Cargo.toml")
    wanted.add(dp)
    _write_if_changed(dp, toml.encode())
    # remove stale files
    for dirpath, dirs, files in os.walk(dst_root):
        for fn in files:
            p = os.path.join(dirpath, fn)
            if p not in wanted:
                os.remove(p)


def generate(mounts_enabled=True, tree=None, kani_override=None):
    """(Re)generate the tree; returns sha256 of the repo sources that went in.
    `kani_override` maps a mounted harness file (relative name) to a replacement path (replay)."""
    tree = tree or TREE
    digest = hashlib.sha256()
    for name in ("rawdb", "vecdb", "vecdb_derive"):
        _copy_crate(name, digest, mounts_enabled, tree, kani_override)
    root = open(os.path.join(REPO, "Cargo.toml")).read()
    # take [workspace.dependencies] verbatim, with paths rewritten to the generated crates
    if "[workspace.dependencies]" not in root:
        raise MachineryError("gentree anchor missing: [workspace.dependencies]")
    ws = root.split("[workspace.dependencies]", 1)[1].split("\n[", 1)[0].strip()
    version = "0.0.0"
    for line in root.splitlines():
        if line.startswith("package.version"):
            version = line.split("=", 1)[1].strip().strip('"')
    _write_if_changed(os.path.join(tree, "Cargo.toml"),
                      ROOT_TOML.format(version=version, wsdeps=ws, verif=VERIF).encode())
    lock_dst = os.path.join(tree, "Cargo.lock")
    if not os.path.exists(lock_dst):
        shutil.copy(os.path.join(REPO, "Cargo.lock"), lock_dst)
    os.makedirs(os.path.join(tree, ".cargo"), exist_ok=True)
    _write_if_changed(os.path.join(tree, ".cargo", "config.toml"),
                      b"[net]\noffline = true\n")
    return digest.hexdigest()


if __name__ == "__main__":
    try:
        print(generate())
    except MachineryError as e:
        print("MACHINERY-ERROR", e)
        sys.exit(2)
