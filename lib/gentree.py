"""Generate the verification tree from /repo's *current working tree*.

The tree is /verif/.work/tree:
  crates/{rawdb,vecdb,vecdb_derive}/  <- byte-for-byte copies of /repo/crates/*/{src,Cargo.toml}
                                         except (a) the import redirects below (only `use` text),
                                         (b) one appended `#[cfg(kani)] #[path=...] mod verif_*;`
                                         line per mounted harness module
  Cargo.toml                          <- workspace + [patch.crates-io] selecting the model crates
  Cargo.lock                          <- copy of /repo/Cargo.lock (cargo completes it offline)

Files are only rewritten when their content changed, so cargo's fingerprints stay valid between
runs on an unchanged /repo; any edit under /repo/crates changes the generated file and forces the
rebuild of that crate.  A redirect whose anchor text is missing is a machinery error (exit 2).
"""
import os, sys, shutil, hashlib, json, re

REPO = os.environ.get("VERIF_REPO", "/repo")
VERIF = os.path.dirname(os.path.dirname(os.path.abspath(__file__)))
WORK = os.environ.get("VERIF_WORK", os.path.join(VERIF, ".work"))
TREE = os.path.join(WORK, "tree")
PLAT = "anydb_verif_platform"


class MachineryError(Exception):
    pass


# ---------------------------------------------------------------------------------------------
# Import redirects: (crate, file relative to src, old text, new text).  Only `use` statements.
# Every entry must match exactly once.
# ---------------------------------------------------------------------------------------------
# Import redirection.  Instead of matching the text of whole `use` statements (which breaks as soon as a change
# adds or removes one import), every top-level `use std::...;` statement of the files below is parsed into its leaf
# paths; the leaves matching a rule move to the platform model crate, the others stay with std.  Fully qualified
# mentions (`std::sync::Arc::strong_count`) are rewritten by the same rules.
RAW_MOVED = [("collections", "HashMap"), ("collections", "HashSet"), ("collections", "BTreeMap"), ("collections", "BTreeSet"),
             ("fs",), ("sync", "Arc"), ("sync", "Weak"), ("thread",), ("time", "Instant")]
# rawdb: every source file except error.rs (it names std::fs::TryLockError, which the fs model returns unchanged)
RAW_SKIP = {"error.rs"}
RAW_EXTRA = {"lib.rs": ["libc"], "hole_punch.rs": ["libc"], "disk_usage.rs": ["libc"]}
VEC_RULES = {
    # File handles cross the crate boundary: Region::open_db_read_only_file
    "variants/raw/sources/io.rs": [("fs", "File")],
    "variants/compressed/sources/io.rs": [("fs", "File")],
    "variants/raw/inner/read_write/mod.rs": [("collections", "BTreeMap"), ("collections", "BTreeSet")],
    "variants/raw/inner/read_write/rollback.rs": [("collections", "BTreeSet")],
    "variants/raw/inner/read_write/change.rs": [("collections", "BTreeSet")],
}

USE_RE = re.compile(r"^(?P<attrs>(?:[ \t]*#\[[^\n]*\]\n)*)(?P<indent>[ \t]*)(?P<vis>pub(?:\([^)]*\))?[ \t]+)?use[ \t\n]+std::(?P<body>[^;]*);", re.M)


def _flatten_use(body):
    """`fs::{self, File}, sync::{Arc, atomic::{A, B}}` -> [[fs,self],[fs,File],[sync,Arc],[sync,atomic,A],...]"""
    pos = 0
    n = len(body)

    def ws():
        nonlocal pos
        while pos < n and body[pos] in " \t\n":
            pos += 1

    def tree(prefix):
        nonlocal pos
        out = []
        ws()
        if pos < n and body[pos] == "{":
            pos += 1
            while True:
                ws()
                if pos < n and body[pos] == "}":
                    pos += 1
                    break
                out += tree(prefix)
                ws()
                if pos < n and body[pos] == ",":
                    pos += 1
            return out
        m = re.compile(r"[A-Za-z_][A-Za-z0-9_]*|\*").match(body, pos)
        if not m:
            raise MachineryError("gentree: cannot parse use tree: " + body[:80])
        seg = m.group(0)
        pos = m.end()
        ws()
        if body.startswith("::", pos):
            pos += 2
            return tree(prefix + [seg])
        m2 = re.compile(r"as[ \t\n]+([A-Za-z_][A-Za-z0-9_]*)").match(body, pos)
        if m2:
            seg = seg + " as " + m2.group(1)
            pos = m2.end()
        return [prefix + [seg]]

    leaves = tree([])
    ws()
    if pos != n:
        raise MachineryError("gentree: trailing text in use tree: " + body[:80])
    return leaves


def _is_moved(leaf, rules):
    comps = [c.split(" as ")[0] for c in leaf]
    for r in rules:
        if tuple(comps[:len(r)]) == tuple(r):
            return True
        # a glob or `self` import of a parent of a moved item cannot be split
        if comps[-1] == "*" and tuple(comps[:-1]) == tuple(r[:len(comps) - 1]):
            raise MachineryError("gentree: glob import overlaps a redirected path: " + "::".join(leaf))
    return False


def _render(leaf):
    if leaf[-1].split(" as ")[0] == "self" and len(leaf) > 1:
        return "::".join(leaf[:-1]) + "::{" + leaf[-1] + "}"
    return "::".join(leaf)


def redirect_imports(text, rules, extra=()):
    """Returns (new text, number of leaves moved)."""
    moved_total = 0

    def repl(m):
        nonlocal moved_total
        leaves = _flatten_use(m.group("body"))
        keep = [l for l in leaves if not _is_moved(l, rules)]
        move = [l for l in leaves if _is_moved(l, rules)]
        if not move:
            return m.group(0)
        moved_total += len(move)
        head = m.group("attrs") + m.group("indent") + (m.group("vis") or "") + "use "
        out = []
        if keep:
            out.append(head + "std::{" + ", ".join(_render(l) for l in keep) + "};")
        out.append(head + PLAT + "::{" + ", ".join(_render(l) for l in move) + "};")
        return "\n".join(out)

    text = USE_RE.sub(repl, text)
    # fully qualified mentions outside use statements
    for r in rules:
        path = "::".join(r)
        text = re.sub(r"(?<![A-Za-z0-9_:])std::" + re.escape(path) + r"\b", PLAT + "::" + path, text)
    if extra:
        # after the last top-level `use` line of the leading import block
        m = re.search(r"^use [^;]*;", text, re.M)
        ins = "".join(f"#[allow(unused_imports)]\nuse {PLAT}::{e};\n" for e in extra)
        if m:
            text = text[:m.start()] + ins + text[m.start():]
        else:
            text = ins + text
    return text, moved_total


# Harness modules mounted into the generated tree: (crate, file, module name, harness file)
MOUNTS = [
    ("rawdb", "lib.rs", "verif_root", "kani/rawdb/root.rs"),
    ("rawdb", "layout.rs", "verif_layout", "kani/rawdb/layout.rs"),
    ("rawdb", "regions.rs", "verif_regions", "kani/rawdb/regions.rs"),
    ("rawdb", "region.rs", "verif_region", "kani/rawdb/region.rs"),
    ("rawdb", "region_metadata.rs", "verif_meta", "kani/rawdb/meta.rs"),
    ("vecdb", "lib.rs", "verif_root", "kani/vecdb/root.rs"),
    ("vecdb", "base/mod.rs", "verif_base", "kani/vecdb/base.rs"),
    ("vecdb", "base/header/inner.rs", "verif_hinner", "kani/vecdb/header_inner.rs"),
    ("vecdb", "base/header/mod.rs", "verif_header", "kani/vecdb/header.rs"),
    ("vecdb", "variants/eager/mod.rs", "verif_eager", "kani/vecdb/eager.rs"),
    ("vecdb", "variants/raw/inner/read_write/mod.rs", "verif_raw", "kani/vecdb/raw_rw.rs"),
    ("vecdb", "variants/compressed/inner/pages.rs", "verif_pages", "kani/vecdb/pages.rs"),
    ("vecdb", "variants/compressed/inner/read_write/mod.rs", "verif_comp", "kani/vecdb/comp_rw.rs"),
]

FEATURES_VECDB = ["derive", "zerocopy"]

ROOT_TOML = """# GENERATED by /verif/lib/gentree.py - do not edit
[workspace]
resolver = "3"
members = ["crates/rawdb", "crates/vecdb", "crates/vecdb_derive"]
package.license = "MIT"
package.edition = "2024"
package.version = "{version}"
package.homepage = "x"
package.repository = "x"
package.readme = "x"
package.keywords = []
package.categories = []

[workspace.dependencies]
{wsdeps}

[patch.crates-io]
parking_lot = {{ path = "{verif}/models/parking_lot" }}
memmap2 = {{ path = "{verif}/models/memmap2" }}
rayon = {{ path = "{verif}/models/rayon" }}
smallvec = {{ path = "{verif}/models/smallvec" }}

[workspace.lints.rust]
unexpected_cfgs = {{ level = "allow" }}
"""


def _write_if_changed(path, data: bytes):
    try:
        with open(path, "rb") as f:
            if f.read() == data:
                return False
    except FileNotFoundError:
        pass
    os.makedirs(os.path.dirname(path), exist_ok=True)
    with open(path, "wb") as f:
        f.write(data)
    return True


def _copy_crate(name, digest, mounts_enabled, tree=None, kani_override=None):
    tree = tree or TREE
    src_root = os.path.join(REPO, "crates", name)
    dst_root = os.path.join(tree, "crates", name)
    wanted = set()
    expected = set()
    if name == "rawdb":
        expected = {"lib.rs", "regions.rs", "region.rs", "layout.rs", "mmap.rs"}
    elif name == "vecdb":
        expected = set(VEC_RULES)
    seen_moved = {}
    for dirpath, dirs, files in os.walk(os.path.join(src_root, "src")):
        for fn in files:
            sp = os.path.join(dirpath, fn)
            rel = os.path.relpath(sp, src_root)
            relsrc = os.path.relpath(sp, os.path.join(src_root, "src"))
            data = open(sp, "rb").read()
            digest.update(rel.encode())
            digest.update(data)
            if fn.endswith(".rs"):
                text = data.decode()
                rules, extra = None, ()
                if name == "rawdb" and relsrc not in RAW_SKIP:
                    rules, extra = RAW_MOVED, RAW_EXTRA.get(relsrc, ())
                elif name == "vecdb" and relsrc in VEC_RULES:
                    rules = VEC_RULES[relsrc]
                if rules:
                    text, nmoved = redirect_imports(text, rules, extra)
                    seen_moved[relsrc] = nmoved
                for (c, f, mod, hf) in MOUNTS:
                    if c == name and f == relsrc and mounts_enabled:
                        hpath = os.path.join(VERIF, hf)
                        if kani_override and hf in kani_override:
                            hpath = kani_override[hf]
                        if os.path.exists(hpath):
                            text += f'\n#[cfg(kani)]\n#[path = "{hpath}"]\n{"pub" if (c == "rawdb" and mod == "verif_root") else "pub(crate)"} mod {mod};\n'
                if relsrc == "lib.rs" and name in ("rawdb", "vecdb"):
                    text = "#![cfg_attr(kani, feature(allocator_api))]\n" + text
                data = text.encode()
            dp = os.path.join(dst_root, rel)
            wanted.add(dp)
            _write_if_changed(dp, data)
    for f in expected:
        if not seen_moved.get(f):
            raise MachineryError(f"gentree anchor missing: {name}/src/{f}: no std import to redirect to the platform model "
                                 f"(file moved or no longer uses the redirected std items)")
    # README referenced by include_str!
    for extra in ("README.md",):
        sp = os.path.join(src_root, extra)
        if os.path.exists(sp):
            dp = os.path.join(dst_root, extra)
            wanted.add(dp)
            _write_if_changed(dp, open(sp, "rb").read())
    # Cargo.toml: add platform dependency + lints
    toml = open(os.path.join(src_root, "Cargo.toml")).read()
    digest.update(toml.encode())
    # drop [[example]] tables and dev-dependencies (not part of the library under verification)
    toml = re.sub(r"\[\[example\]\]\n(?:[^\[\n][^\n]*\n|\n)*", "", toml)
    toml = re.sub(r"\[dev-dependencies\]\n(?:[^\[\n][^\n]*\n|\n)*", "", toml)
    if name in ("rawdb", "vecdb"):
        toml = toml.replace("[package]\n", "[package]\nautoexamples = false\nautotests = false\nautobenches = false\n", 1)
        if "[dependencies]\n" not in toml:
            raise MachineryError(f"gentree anchor missing: {name}/Cargo.toml [dependencies]")
        toml = toml.replace(
            "[dependencies]\n",
            f'[dependencies]\n{PLAT} = {{ path = "{VERIF}/models/platform" }}\n', 1)
        if name == "rawdb":
            fwd = f'verif_teardown = ["{PLAT}/teardown"]\n'
            if re.search(r"^\[features\]\n", toml, re.M):
                toml = re.sub(r"^\[features\]\n", "[features]\n" + fwd, toml, count=1, flags=re.M)
            else:
                toml += "\n[features]\n" + fwd
        if '[lints' not in toml:
            toml += '\n[lints]\nworkspace = true\n'
    dp = os.path.join(dst_root, "Cargo.toml")
    wanted.add(dp)
    _write_if_changed(dp, toml.encode())
    # remove stale files
    for dirpath, dirs, files in os.walk(dst_root):
        for fn in files:
            p = os.path.join(dirpath, fn)
            if p not in wanted:
                os.remove(p)


def generate(mounts_enabled=True, tree=None, kani_override=None):
    """(Re)generate the tree; returns sha256 of the repo sources that went in.
    `kani_override` maps a mounted harness file (relative name) to a replacement path (replay)."""
    tree = tree or TREE
    digest = hashlib.sha256()
    for name in ("rawdb", "vecdb", "vecdb_derive"):
        _copy_crate(name, digest, mounts_enabled, tree, kani_override)
    root = open(os.path.join(REPO, "Cargo.toml")).read()
    # take [workspace.dependencies] verbatim, with paths rewritten to the generated crates
    if "[workspace.dependencies]" not in root:
        raise MachineryError("gentree anchor missing: [workspace.dependencies]")
    ws = root.split("[workspace.dependencies]", 1)[1].split("\n[", 1)[0].strip()
    version = "0.0.0"
    for line in root.splitlines():
        if line.startswith("package.version"):
            version = line.split("=", 1)[1].strip().strip('"')
    _write_if_changed(os.path.join(tree, "Cargo.toml"),
                      ROOT_TOML.format(version=version, wsdeps=ws, verif=VERIF).encode())
    lock_dst = os.path.join(tree, "Cargo.lock")
    if not os.path.exists(lock_dst):
        shutil.copy(os.path.join(REPO, "Cargo.lock"), lock_dst)
    os.makedirs(os.path.join(tree, ".cargo"), exist_ok=True)
    _write_if_changed(os.path.join(tree, ".cargo", "config.toml"),
                      b"[net]\noffline = true\n")
    return digest.hexdigest()


if __name__ == "__main__":
    try:
        print(generate())
    except MachineryError as e:
        print("MACHINERY-ERROR", e)
        sys.exit(2)
