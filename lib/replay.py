"""Counterexample -> concrete values -> native run of the same harness against the real code.

1. re-run the failing harness with `-Z concrete-playback --concrete-playback=print`: CBMC's model is
   turned into a unit test (the byte values of every kani::any()).
2. generate a *replay tree* in which the harness file is a copy with that unit test appended, and run
   `cargo kani playback` on it: the crates are compiled natively (dev profile, the profile Kani
   models; then --release, the profile users run) and the harness executes with the concrete values.
3. only if the native run fails is the counterexample reported as a violation.  A counterexample
   that does not reproduce means the encoding / a stub is wrong (machinery error, exit 2).

The replay artifact (`replay=<path>`) is the saved unit test together with the failing checks.
`bin/check <prop> --replay <path>` re-executes it.
"""
import os, re, subprocess, shutil, glob

import gentree, runner

RDIR = os.path.join(gentree.WORK, "replay")
RTREE = os.path.join(gentree.WORK, "rtree")
RKANI = os.path.join(gentree.WORK, "rkani")

RE_BLOCK = re.compile(r"```\s*\n(.*?)\n```", re.S)
RE_FN = re.compile(r"(#\[test\]\nfn (kani_concrete_playback_\w+)\(\) \{.*?\n\})", re.S)


def pick_test(text):
    """First generated unit test that belongs to a failed *check* (not to a cover! witness)."""
    for m in RE_BLOCK.finditer(text):
        blk = m.group(1)
        if "Check for `cover`" in blk:
            continue
        f = RE_FN.search(blk)
        if f:
            return f.group(1), f.group(2)
    return None, None


def _find_harness_file(name):
    for (c, f, mod, hf) in gentree.MOUNTS:
        p = os.path.join(gentree.VERIF, hf)
        if not os.path.exists(p):
            continue
        # the mounted file or any file it includes via #[path] in the same directory tree
        cands = [p]
        d = os.path.dirname(p)
        for q in glob.glob(os.path.join(d, "**", "*.rs"), recursive=True):
            if q not in cands:
                cands.append(q)
        for q in cands:
            if re.search(r"\bfn\s+" + re.escape(name) + r"\s*\(", open(q).read()):
                return hf, p, q
    return None, None, None


def replay(h, r):
    os.makedirs(RDIR, exist_ok=True)
    out = {"path": os.path.join(RDIR, h.name + ".rs"), "confirmed": False, "why": ""}
    target = os.path.join(gentree.WORK, "target", "replay")
    cmd = runner._cmd(h, target) + ["-Z", "concrete-playback", "--concrete-playback=print"]
    env = dict(os.environ, CARGO_NET_OFFLINE="true", CARGO_TERM_COLOR="never")
    try:
        p = subprocess.run(cmd, cwd=gentree.TREE, env=env, capture_output=True, text=True,
                           timeout=h.timeout * 2, preexec_fn=runner._limit(max(32, h.mem)))
    except subprocess.TimeoutExpired:
        out["why"] = "concrete playback generation timed out"
        out["generation_failed"] = True
        return out
    text = p.stdout + p.stderr
    test_code, test_name = pick_test(text)
    if not test_code:
        out["why"] = "no concrete playback test in output"
        out["generation_failed"] = True
        with open(out["path"], "w") as f:
            f.write("// no concrete playback test was produced\n// failed checks: %s\n" % r["reason"])
        return out
    header = ("// Replay artifact: Kani concrete playback of harness `%s` (property %s)\n"
              "// failed checks: %s\n// run: /verif/bin/check %s --replay %s\n"
              % (h.name, h.prop, r["reason"].replace("\n", " "), h.prop, out["path"]))
    with open(out["path"], "w") as f:
        f.write(header + test_code + "\n")
    ok, why = execute(h, test_code, test_name)
    out["confirmed"] = ok
    out["why"] = why
    return out


def execute(h, test_code, test_name):
    """Append the test to a copy of the harness file, build natively, run."""
    hf, mounted, actual = _find_harness_file(h.name)
    if not hf:
        return False, "harness source file not found"
    # copy the whole kani dir (tiny), patch the one file, point the mount at the copy
    if os.path.exists(RKANI):
        shutil.rmtree(RKANI)
    shutil.copytree(os.path.join(gentree.VERIF, "kani"), RKANI)
    rel_actual = os.path.relpath(actual, os.path.join(gentree.VERIF, "kani"))
    pa = os.path.join(RKANI, rel_actual)
    src = open(pa).read()
    # nested #[path] attributes are absolute (/verif/kani/...): redirect them into the copy
    for q in glob.glob(os.path.join(RKANI, "**", "*.rs"), recursive=True):
        t = open(q).read()
        t2 = t.replace(os.path.join(gentree.VERIF, "kani") + "/", RKANI + "/")
        if q == pa:
            t2 = t2 + "\n" + test_code + "\n"
        if t2 != t:
            open(q, "w").write(t2)
    override = {m[3]: os.path.join(RKANI, os.path.relpath(os.path.join(gentree.VERIF, m[3]),
                                                         os.path.join(gentree.VERIF, "kani")))
                for m in gentree.MOUNTS}
    gentree.generate(tree=RTREE, kani_override=override)
    env = dict(os.environ, CARGO_NET_OFFLINE="true", CARGO_TERM_COLOR="never",
               CARGO_TARGET_DIR=os.path.join(gentree.WORK, "target", "playback"))
    results = []
    for prof in ([], ["--release"]):
        cmd = ["cargo", "kani", "playback", "-Z", "concrete-playback", "-p", h.pkg] + prof
        if h.features:
            cmd += ["--features", h.features]
        elif h.pkg == "vecdb":
            cmd += ["--features", "derive,zerocopy"]
        cmd += ["--", test_name]
        try:
            p = subprocess.run(cmd, cwd=RTREE, env=env, capture_output=True, text=True, timeout=1200)
        except subprocess.TimeoutExpired:
            results.append(("timeout", ""))
            continue
        t = p.stdout + p.stderr
        with open(os.path.join(RDIR, h.name + (".release" if prof else ".dev") + ".log"), "w") as f:
            f.write(t)
        if re.search(r"test result: FAILED", t) or re.search(r"\b1 failed", t):
            results.append(("failed", t))
        elif re.search(r"test result: ok\. 1 passed", t):
            results.append(("passed", t))
        else:
            results.append(("error", t[-400:]))
    kinds = [k for k, _ in results]
    if "failed" in kinds:
        return True, "native run fails: " + "/".join(kinds) + " (dev/release)"
    return False, "native run: " + "/".join(kinds) + " (dev/release)"
