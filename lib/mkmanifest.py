#!/usr/bin/env python3
"""Regenerate /verif/MANIFEST.json from the registry + the per-property claim table below."""
import os, sys, json
sys.path.insert(0, os.path.dirname(os.path.abspath(__file__)))
import registry

TECH = ("bounded symbolic execution of the real Rust code (Kani 0.68 -> CBMC 6.11 -> CaDiCaL SAT) "
        "from /repo's current sources; inputs/states are kani::any(), unwinding assertions on; ")

# property -> (level category, claim text, level note, technique suffix, design ref)
CLAIMS = {
    "C01": ("model_checking",
            "Each region operation is checked as ONE inductive step of the real code from an arbitrary database state satisfying the "
            "representation invariant: Region::write_with (all placement paths, 3 entry points), truncate, rename, remove run on a Database "
            "built directly (real Layout, RegionMetadata, Regions); the data file is a ghost (writes/copies are events), so 'bytes read back' "
            "is decided as a placement algebra + frame condition (exactly one data write at new_start+offset, old bytes copied iff relocated, "
            "no event inside any other region's extent, other regions' metadata unchanged). Quick tier: truncate, rename, Layout promotion; "
            "the write_with shapes (8-16 min, 30-40 GB each) and remove are thorough tier.",
            "Bounds: concrete world shapes with concrete extent sizes (1-4 pages), <=3 regions, data <= 5 pages; symbolic content lengths, "
            "offsets, metadata states, file length, growth failure. Slot bytes abstracted to decoded fields by a cfg(kani) hook (codec itself: C17). "
            "Reopen (Regions::fill/Layout::from) is NOT decided (only the slot codec round trip, C17). Histories = induction over the step lemma; "
            "the invariant (DESIGN 5 C02) is re-established by every step harness.",
            "inductive step harnesses over a ghost-event data file", "4 (C01 row), 5"),
    "C02": ("model_checking",
            "Level 1: every Layout operation (len, is_last_anything, best-fit search, hole split, remove_region, promote_pending_holes, reserve/move) "
            "is checked against its contract on arbitrary INV layouts of enumerated shapes with symbolic extent sizes, with a pointwise oracle "
            "(classification of one symbolic byte address before/after). Level 2 (thorough): write_with / remove / create_region_if_needed on a real "
            "Database re-establish INV pointwise and obey best-fit reuse.",
            "Bounds: shapes of 2-5 extents, sizes 1..3|4|8 pages, model ordered maps of capacity 4 (std BTreeMap/SmallVec replaced by a sorted-array model), "
            "Layout::from / reopen not decided.",
            "per-operation contract harnesses, pointwise layout oracle", "4 (C02 row), 5"),
    "C03": ("model_checking",
            "The real ReadWriteRawVec<usize,u32,BytesStrategy> is built directly in an arbitrary valid overlay state over a tiny real data file "
            "(rawdb in contract mode) and one step of each operation is compared pointwise with the reference list-of-optional-values model computed "
            "from the fields: truncate_if_needed_at, update_at, delete_at, push (quick), write() with on-disk bytes compared (thorough), plus all "
            "index/range read paths.",
            "Bounds: <=3 stored + 2 pushed u32, <=2 deleted, <=2 updated slots, 48-byte file. Only the raw Bytes format with u32; compressed formats, "
            "ZeroCopy, EagerVec wrappers over real formats, reset, re-import and the holes region (needs the allocator) are outside; the file-IO scan "
            "back-end is cut.",
            "contract-mode inductive step harnesses vs reference model", "4 (C03 row), 5"),
    "C05": ("model_checking",
            "Crash safety is decided on the ghost event log of the real code: Database::flush orders fdatasync(data) strictly before fdatasync(regions), "
            "marks clean only after both, promotes freed extents only after both and never on failure (thorough, 11 min); write_with copies before it "
            "writes before it publishes the slot and never touches another region's or a pending extent (thorough); the Layout harnesses show that an "
            "extent freed since the last flush is never reused or grown over (is_last_anything / len / best fit ignore pending holes) - quick tier.",
            "The durable-image reconstruction with per-page subsets (DESIGN 5 C05) is NOT built: the claim is the ordering + no-touch lemmas it rests on. "
            "4 KiB slot writes atomic; torn pages, msync semantics outside.",
            "event-order assertions over a ghost log + Layout contracts", "4 (C05 row), 5"),
    "C06": ("model_checking",
            "EagerVec's generic compute code runs unchanged over a storage model (the reference vector as a StoredVec) and mock sources; each method is "
            "checked in the inductive one-call form: arbitrary output state with a correct prefix and a stale tail, one call with max_from inside the "
            "correct prefix must leave exactly the from-scratch result (covers first computation, append, truncation+regrowth, redundant calls).",
            "Bounds: source length <= 3, window 1..4, u32->u64; methods: compute_transform, compute_max, compute_cumulative (quick), compute_sum (thorough). "
            "The other ~35 compute_* methods, batch splitting (MAX_CACHE_SIZE at its real value => single batch) and real storage formats under the column are outside.",
            "inductive one-call harnesses over a storage model", "4 (C06 row), 5"),
    "C08": ("model_checking",
            "Index-addressed and range reads of the read-write raw vector (collect_one_at, get_any_or_read_at, fold/try_fold over the mmap source, the "
            "pushed tail and the overlay-merging fold_dirty) are compared with the reference contents for symbolic ranges incl. reversed / out of bounds / usize::MAX; "
            "any reachable panic is a failure. The generic default methods over mocks are exercised by the C15 harnesses.",
            "Bounds as C03. Outside: Cursor/read_sorted on vectors with deleted slots (known panic, DESIGN 7-3, not yet a registered harness), compressed formats, "
            "CachedVec, read-only clones, file-IO back-end.",
            "contract-mode read harnesses vs reference model", "4 (C08 row), 5"),
    "C09": ("model_checking",
            "Narrow: only the cached-wrapper reader is decided. CachedVec::materialize runs against a source whose published length grows exactly "
            "between the reader's length snapshot and its cache store (the budget hook plays the writer): the snapshot is tagged with the length it was "
            "collected for, so no reader ever observes a length whose elements are not readable.",
            "NOT decided: the writer side (raw/compressed write(): data before region length before published length), point readers, read-only clones, "
            "blocking; memory-ordering strength of SharedLen cannot be checked by Kani (sequentially consistent model).",
            "interleaving at one hook point, concrete lengths", "4 (C09 row), 5"),
    "C10": ("model_checking",
            "Only the allocator half is decided: the Layout contracts that isolation across the lock-release windows of write_with rests on "
            "(reservations count in len() and is_last_anything, pending holes are never reused before a flush, promotion never merges across a live region).",
            "The two-thread interference harnesses and the reader-lifetime clause (known defect DESIGN 7-2) are NOT built.",
            "Layout contract harnesses", "4 (C10 row), 5"),
    "C11": ("model_checking",
            "Deadlock freedom is reduced to per-operation obligations checked by the solver on the lock tap of the real code: every lock request happens "
            "while only locks of strictly smaller class in the documented order are held, no held lock is requested again (writer preference), nothing is "
            "held at return. Quick: Region::truncate, Region::rename; thorough: Database::flush, Database::compact.",
            "Trusted: the lock-hierarchy theorem. Operations not covered: write_with growth paths, remove, create, readers, all vecdb locks (pages, header) - "
            "the pages<->mmap cycle of DESIGN 7-6 is therefore not detected.",
            "lock-order obligations over a lock tap", "4 (C11 row), 5"),
    "C12": ("model_checking",
            "compact() = flush + punch_holes on a real Database: every punched range is page aligned, inside a region's unused reserve tail or a promoted hole, "
            "never below ceil_page(len) of a live region, no length change (KEEP_SIZE asserted at the libc model) - thorough (heavy). Quick tier: the Layout "
            "contracts that keep a live byte out of every promoted hole.",
            "Writer races inside punch_holes and crash inside compact are not decided.",
            "event assertions over the ghost log + Layout contracts", "4 (C12 row), 5"),
    "C13": ("model_checking",
            "Every refusing path that is reachable in the step harnesses is asserted to leave the observable state unchanged: truncate beyond the length, "
            "rename onto an existing name, update beyond the length (raw vec), malformed change record (parser returns before any mutation), and in the thorough "
            "tier write beyond the end / growth failure and removal of a still-referenced region.",
            "import version/format mismatch (C14), checked_push, rollback without record are not decided.",
            "refusal paths of the step harnesses", "4 (C13 row), 5"),
    "C15": ("model_checking",
            "LazyVecFrom1/2/3 and LazyDeltaVec<DeltaSub> over mock sources with symbolic contents and unequal lengths: every range/point/sorted read equals the defining formula and the "
            "length equals the governing length; reachable panics are failures.",
            "Bounds: sources <= 3 elements. LazyDeltaVec is covered for DeltaSub (incl. empty windows, which exposed fixed defect F05); LazyAggVec is NOT decided (its harness exceeds 30 GB).",
            "formula-equality harnesses over mock sources", "4 (C15 row), 5"),
    "C17": ("model_checking",
            "Every on-disk decoder is symbolically executed on arbitrary bytes (RegionMetadata slot: all 4096 bytes symbolic) and every encoder/decoder pair on "
            "arbitrary valid values; the solver shows round-trip identity and absence of panics/overflow/out-of-bounds (CBMC pointer checks on).",
            "Bounds: region id <= 4 bytes or > 1024, change records <= 56 bytes, arrays N in {1,3,33,65}. Outside: serde, derive macro output, Regions::fill.",
            "codec round-trip / arbitrary-bytes harnesses", "4 (C17 row), 5"),
    "C14": ("model_checking",
            "Narrow: the raw Bytes format, one region, stored length concrete per harness (empty, shorter than a header, header only, misaligned payload, "
            "two elements) with stored header version / vector version / format byte and the requested version symbolic. Plain import: accepts exactly an empty "
            "region or a matching aligned vector, returns the stored length, writes nothing to an existing vector's region, never discards; a refused import wrote "
            "nothing. Forced import: keeps matching data, keeps and returns what it stored itself, never discards on a non-version error. Known finding F06: the "
            "forced entry point adds the layer version twice, so a vector stored through import() is discarded by forced_import() with identical arguments.",
            "NOT decided: compressed formats and their page-index region, the holes region, name resolution and region creation/removal (stubbed: the allocator is "
            "decided by C01/C02), lock and I/O errors during import, EagerVec/stored-vec wrappers' additional version layers.",
            "contract-mode import harnesses, one per stored length", "4 (C14 row), 5"),
    "C18": ("model_checking",
            "Narrow: only the part of the property that is code in open_with_min_len is decided. On a file-system model with symbolic file length, "
            "symbolic min_len and a symbolic 'locked by another holder' flag per file, the solver shows over the ghost event log of the real code that "
            "no file is opened truncating, that the data-file lock attempt precedes any resize or sync, that an open refused on the data-file lock has "
            "resized, synced and written nothing, and that a successful open holds both locks; a second harness runs the real drop glue and shows that both "
            "locks are held while any Database handle is alive and are released with the last one even if a consumer still holds a file from "
            "open_read_only_file (modelled flock semantics: a lock lives as long as a handle on the locking open-file description).",
            "NOT decided: that the kernel's advisory lock really excludes a second open file description (other thread / other process); lifetime extension "
            "through region-derived references, readers and background tasks (only handle clones are exercised); that a later open sees the flushed data "
            "(Regions::fill is stubbed; slot decoding is C17).",
            "event-order assertions over the ghost log of one open call", "4 (C18 row), 5"),
    "C19": ("model_checking",
            "validate_computed_version_or_reset + compute_transform over the storage model with symbolic recorded vs presented versions: changed => reset, "
            "re-evaluation from index 0, new version recorded, marked for write-back and persisted by the next write; unchanged => nothing below "
            "min(max_from, len) re-evaluated or altered.",
            "One compute family (transform); persistence through the real header write is modelled by the storage model's write().",
            "inductive one-call harnesses over a storage model", "4 (C19 row), 5"),
    "C20": ("model_checking",
            "Reads in the post-rollback state (logical length above the bytes on disk) with CBMC pointer checks on over a 48-byte file: the read-write vector "
            "serves such indices from its overlay; the read-only clone does not (known finding F04).",
            "Raw Bytes format, point reads only; compressed readers and range reads in the expanded state outside. The state invariant the read harnesses start from "
            "(no index both deleted and updated, overlay keys below the logical length) is shown to be preserved by every editing step (c03_raw_edit_step). For the compressed formats only the lemma that "
            "keeps the persisted page table from describing pages the data region no longer holds is decided (Pages::truncate/checked_push/flush leave the "
            "page-index region byte-equal to the in-memory index and exactly 16 * pages long, concrete shapes with 0-2 pages).",
            "contract-mode harnesses with pointer checks", "4 (C20 row), 5"),
}

NOT_APPLICABLE = {
    "C04": "the commit/rollback step harnesses (kani/vecdb/raw_rw.rs c04_raw_commit_undo_*) go through the real change-record parser, whose Vec allocations exhaust memory during symbolic execution even with every count concrete; the change directory (numeric file names through format!/parse, read_dir) is not encodable - no check, nothing claimed",
    "C07": "codec internals (Pco/LZ4/Zstd numeric loops, C FFI) are out of reach of Kani; the framework half was encoded (kani/vecdb/comp_rw.rs: real write() with an identity codec and 16-byte pages via a cfg(kani) page-size hook, 13 concrete shapes) but every shape exhausts memory (4.4 M symex steps, out of memory at a 40 GB cap) - nothing claimed. Only the Pages::flush lemma (persisted page index == in-memory index) is decided, and it is listed under C20",
    "C16": "only the cursor arithmetic of the change-record parser is decided (harness c17_change_cursor_bounds, listed under C17); the whole-record parser harness exhausts memory (symbolic-length collect), retention (save_change_file: numeric file names via string formatting) and rollback_before are not encodable within reach - nothing claimed",
}


def main():
    verif = os.path.dirname(os.path.dirname(os.path.abspath(__file__)))
    props = [json.loads(l) for l in open(os.path.join(verif, "properties.jsonl"))]
    have = set(registry.props())
    checks, na = [], []
    for p in props:
        pid = p["id"]
        if pid in have and pid in CLAIMS:
            cat, text, note, tech, ref = CLAIMS[pid]
            checks.append({
                "property_id": pid,
                "quick_cmd": f"bin/check {pid} --tier quick",
                "thorough_cmd": f"bin/check {pid} --tier thorough",
                "evidence_file": f"/verif/evidence/{pid}.json",
                "replay_cmd_template": f"bin/check {pid} --replay {{path}}",
                "engine": "kani",
                "level_claimed": {"category": cat, "text": text, "design_ref": "DESIGN.md section " + ref},
                "level_note": note,
                "technique": TECH + tech,
            })
        else:
            na.append({"property_id": pid,
                       "reason": NOT_APPLICABLE.get(pid, "no check registered yet (build in progress); see DESIGN.md section 5 " + pid)})
    m = {
        "version": 1,
        "setup_cmd": "bin/setup",
        "hooks": {
            "guard": "cfg(kani)",
            "enable": "set automatically by `cargo kani` for every crate it compiles; ordinary cargo builds never set it",
            "baseline_off_cmd": "cd /repo && cargo test --workspace --no-fail-fast --offline",
            "source_commits": [],
            "add_only": True,
        },
        "engines": [{
            "name": "kani", "path": "/verif/bin/check",
            "serves_properties": sorted(have & set(CLAIMS)),
            "kind_free_text": "Kani 0.68 / CBMC 6.11 bounded model checker over a tree generated from /repo "
                              "(lib/gentree.py) with platform model crates (models/) and harness modules (kani/)",
        }],
        "checks": checks,
        "not_applicable": na,
        "notes": "All checks: exit 0 holds / exit 1 VIOLATION (counterexample replayed natively by Kani concrete playback; where the trace generation of a "
                 "6 M+ variable instance exceeds its budget the solver log is the artifact and the evidence says NOT natively replayed) / exit 2 machinery problem "
                 "(inconclusive, never a verdict). Known findings: /verif/known-findings.json. Tiers: quick < thorough; harnesses that do not complete on a 62 GB box "
                 "are kept in an extended tier (bin/check <ID> --tier extended) that no registered command uses.",
    }
    hooks_file = os.path.join(verif, "hooks.json")
    if os.path.exists(hooks_file):
        m["hooks"]["source_commits"] = json.load(open(hooks_file))
    json.dump(m, open(os.path.join(verif, "MANIFEST.json"), "w"), indent=1)
    print("MANIFEST.json:", len(checks), "checks,", len(na), "not_applicable")


if __name__ == "__main__":
    main()
