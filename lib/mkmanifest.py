#!/usr/bin/env python3
"""Regenerate /verif/MANIFEST.json from the registry + the per-property claim table below."""
import os, sys, json
sys.path.insert(0, os.path.dirname(os.path.abspath(__file__)))
import registry

TECH = ("bounded symbolic execution of the real Rust code (Kani 0.68 -> CBMC 6.11 -> CaDiCaL SAT) "
        "from /repo's current sources; inputs/states are kani::any(), unwinding assertions on; ")

# property -> (level category, claim text, level note, technique suffix, design ref)
CLAIMS = {
    "C17": ("model_checking",
            "Every on-disk decoder is symbolically executed on arbitrary bytes (RegionMetadata slot: all "
            "4096 bytes symbolic) and every encoder/decoder pair on arbitrary valid values; the SAT solver "
            "shows round-trip identity and absence of panics/overflow/out-of-bounds for all inputs inside "
            "the stated size bounds.",
            "Bounds: region id <= 4 bytes or > 1024 (UTF-8 loop), change records <= 64 bytes, arrays N in "
            "{1,3,33}; stubs: alloc::fmt::format, <[T]>::to_vec (bounded copy). Outside: serde, names of "
            "5..1024 bytes with symbolic content.",
            "codec round-trip / arbitrary-bytes harnesses", "5 C17"),
}

NOT_APPLICABLE = {
}


def main():
    verif = os.path.dirname(os.path.dirname(os.path.abspath(__file__)))
    props = [json.loads(l) for l in open(os.path.join(verif, "properties.jsonl"))]
    have = set(registry.props())
    checks, na = [], []
    for p in props:
        pid = p["id"]
        if pid in have and pid in CLAIMS:
            cat, text, note, tech, ref = CLAIMS[pid]
            checks.append({
                "property_id": pid,
                "quick_cmd": f"bin/check {pid} --tier quick",
                "thorough_cmd": f"bin/check {pid} --tier thorough",
                "evidence_file": f"/verif/evidence/{pid}.json",
                "replay_cmd_template": f"bin/check {pid} --replay {{path}}",
                "engine": "kani",
                "level_claimed": {"category": cat, "text": text, "design_ref": "DESIGN.md section " + ref},
                "level_note": note,
                "technique": TECH + tech,
            })
        else:
            na.append({"property_id": pid,
                       "reason": NOT_APPLICABLE.get(pid, "no check registered yet (build in progress); see DESIGN.md section 5 " + pid)})
    m = {
        "version": 1,
        "setup_cmd": "bin/setup",
        "hooks": {
            "guard": "cfg(kani)",
            "enable": "set automatically by `cargo kani` for every crate it compiles; ordinary cargo builds never set it",
            "baseline_off_cmd": "cd /repo && cargo test --workspace --no-fail-fast --offline",
            "source_commits": [],
            "add_only": True,
        },
        "engines": [{
            "name": "kani", "path": "/verif/bin/check",
            "serves_properties": sorted(have & set(CLAIMS)),
            "kind_free_text": "Kani 0.68 / CBMC 6.11 bounded model checker over a tree generated from /repo "
                              "(lib/gentree.py) with platform model crates (models/) and harness modules (kani/)",
        }],
        "checks": checks,
        "not_applicable": na,
        "notes": "All checks: exit 0 holds / exit 1 VIOLATION (replayed natively) / exit 2 machinery problem "
                 "(inconclusive, never a verdict). Known findings: /verif/known-findings.json.",
    }
    hooks_file = os.path.join(verif, "hooks.json")
    if os.path.exists(hooks_file):
        m["hooks"]["source_commits"] = json.load(open(hooks_file))
    json.dump(m, open(os.path.join(verif, "MANIFEST.json"), "w"), indent=1)
    print("MANIFEST.json:", len(checks), "checks,", len(na), "not_applicable")


if __name__ == "__main__":
    main()
